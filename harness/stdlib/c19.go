package stdlib

import (
	"errors"
	"math"
	"reflect"

	zz "github.com/krotik/ecal/zzverif"
)

// ---- synthetic Go functions covering every numeric parameter kind, string, bool, interface, slice,
// variadic, multi-result, trailing-error and panicking signatures.  Every function records what it
// received (numbers as float64, which is exact for every value it can receive from the bridge except
// 64-bit integers above 2^53, where the comparison below is made on the recorded float64 as well).

var c19Calls int
var c19Recv [2]float64
var c19RecvS string
var c19RecvB bool
var c19Fail bool

func c19Rec(i int, v float64) { c19Recv[i] = v }

func c19Int(a int) int             { c19Calls++; c19Rec(0, float64(a)); return a }
func c19Int8(a int8) int8          { c19Calls++; c19Rec(0, float64(a)); return a }
func c19Int16(a int16) int16       { c19Calls++; c19Rec(0, float64(a)); return a }
func c19Int32(a int32) int32       { c19Calls++; c19Rec(0, float64(a)); return a }
func c19Int64(a int64) int64       { c19Calls++; c19Rec(0, float64(a)); return a }
func c19Uint(a uint) uint          { c19Calls++; c19Rec(0, float64(a)); return a }
func c19Uint8(a uint8) uint8       { c19Calls++; c19Rec(0, float64(a)); return a }
func c19Uint16(a uint16) uint16    { c19Calls++; c19Rec(0, float64(a)); return a }
func c19Uint32(a uint32) uint32    { c19Calls++; c19Rec(0, float64(a)); return a }
func c19Uint64(a uint64) uint64    { c19Calls++; c19Rec(0, float64(a)); return a }
func c19Uintptr(a uintptr) uintptr { c19Calls++; c19Rec(0, float64(a)); return a }
func c19Float32(a float32) float32 { c19Calls++; c19Rec(0, float64(a)); return a }
func c19Float64(a float64) float64 { c19Calls++; c19Rec(0, a); return a }
func c19String(a string) string    { c19Calls++; c19RecvS = a; return a + "!" }
func c19Bool(a bool) bool          { c19Calls++; c19RecvB = a; return !a }
func c19Any(a interface{}) interface{} {
	c19Calls++
	return a
}
func c19List(a []interface{}) int        { c19Calls++; return len(a) }
func c19Variadic(a ...interface{}) int   { c19Calls++; return len(a) }
func c19Two(a float64, b int) (float64, int) {
	c19Calls++
	c19Rec(0, a)
	c19Rec(1, float64(b))
	return a, b
}
func c19WithErr(a int, b float64) (float64, error) {
	c19Calls++
	c19Rec(0, float64(a))
	c19Rec(1, b)
	if c19Fail {
		return b, errors.New("go error")
	}
	return b, nil
}
func c19OnlyErr() error {
	c19Calls++
	if c19Fail {
		return errors.New("go error")
	}
	return nil
}
func c19Nothing() { c19Calls++ }
func c19Panics(a int) int {
	c19Calls++
	c19Rec(0, float64(a))
	panic("boom")
}
func c19RuntimePanics(a int) int {
	c19Calls++
	c19Rec(0, float64(a))
	var m map[string]int
	m["x"] = a // assignment to entry in nil map
	return a
}
func c19Pair(a float64) (float64, float64) { c19Calls++; c19Rec(0, a); return a, -a }

// parameter kinds of the table
const (
	c19PInt = iota
	c19PInt8
	c19PInt16
	c19PInt32
	c19PInt64
	c19PUint
	c19PUint8
	c19PUint16
	c19PUint32
	c19PUint64
	c19PUintptr
	c19PFloat32
	c19PFloat64
	c19PString
	c19PBool
	c19PAny
	c19PList
)

type c19Entry struct {
	fn       interface{}
	params   []int
	variadic bool
	results  int // results other than a trailing error
	hasErr   bool
	panics   bool
}

var c19Table = []c19Entry{
	{c19Int, []int{c19PInt}, false, 1, false, false},
	{c19Int8, []int{c19PInt8}, false, 1, false, false},
	{c19Int16, []int{c19PInt16}, false, 1, false, false},
	{c19Int32, []int{c19PInt32}, false, 1, false, false},
	{c19Int64, []int{c19PInt64}, false, 1, false, false},
	{c19Uint, []int{c19PUint}, false, 1, false, false},
	{c19Uint8, []int{c19PUint8}, false, 1, false, false},
	{c19Uint16, []int{c19PUint16}, false, 1, false, false},
	{c19Uint32, []int{c19PUint32}, false, 1, false, false},
	{c19Uint64, []int{c19PUint64}, false, 1, false, false},
	{c19Uintptr, []int{c19PUintptr}, false, 1, false, false},
	{c19Float32, []int{c19PFloat32}, false, 1, false, false},
	{c19Float64, []int{c19PFloat64}, false, 1, false, false},
	{c19String, []int{c19PString}, false, 1, false, false},
	{c19Bool, []int{c19PBool}, false, 1, false, false},
	{c19Any, []int{c19PAny}, false, 1, false, false},
	{c19List, []int{c19PList}, false, 1, false, false},
	{c19Variadic, []int{c19PList}, true, 1, false, false},
	{c19Two, []int{c19PFloat64, c19PInt}, false, 2, false, false},
	{c19WithErr, []int{c19PInt, c19PFloat64}, false, 1, true, false},
	{c19OnlyErr, nil, false, 0, true, false},
	{c19Nothing, nil, false, 0, false, false},
	{c19Panics, []int{c19PInt}, false, 1, false, true},
	{c19RuntimePanics, []int{c19PInt}, false, 1, false, true},
	{c19Pair, []int{c19PFloat64}, false, 2, false, false},
}

// argument kinds: the ECAL value universe
const (
	c19ANull = iota
	c19ABool
	c19ANum
	c19AStr
	c19AList
	c19AMap
	c19AFunc
	c19AKinds
)

var c19ArgNames = []string{"a0", "a1", "a2", "a3"}

func c19Arg(label string, kind int) interface{} {
	switch kind {
	case c19ABool:
		return zz.Bool(label + "_b")
	case c19ANum:
		return zz.Float64(label + "_f")
	case c19AStr:
		b := zz.Bytes(label+"_s", 1)
		return string(b)
	case c19AList:
		return []interface{}{zz.Float64(label + "_l0"), "x"}
	case c19AMap:
		return map[interface{}]interface{}{"k": zz.Float64(label + "_m0")}
	case c19AFunc:
		return NewECALFunctionAdapter(reflect.ValueOf(c19Nothing), "")
	}
	return nil
}

// c19Range: the values of a numeric parameter kind: lo <= trunc(x) < hi (hi exclusive, both exactly representable).
func c19Range(p int) (lo, hi float64, isInt bool) {
	switch p {
	case c19PInt, c19PInt64:
		return -9223372036854775808.0, 9223372036854775808.0, true
	case c19PInt8:
		return -128, 128, true
	case c19PInt16:
		return -32768, 32768, true
	case c19PInt32:
		return -2147483648, 2147483648, true
	case c19PUint, c19PUint64, c19PUintptr:
		return 0, 18446744073709551616.0, true
	case c19PUint8:
		return 0, 256, true
	case c19PUint16:
		return 0, 65536, true
	case c19PUint32:
		return 0, 4294967296, true
	}
	return 0, 0, false
}

// VerifC19Adapter: ECALFunctionAdapter.Run over the synthetic function table x argument vectors of length
// 0..MAXARGS over the ECAL value universe (numbers full-width float64).
//
//	totality        Run returns (no panic escapes - every implicit panic site is an obligation of the engine,
//	                and a panic raised by reflect or by the Go function must be recovered by the bridge);
//	                it returns results or an error; the function ran at most once
//	results         when the arguments fit the signature (number for a numeric parameter, string for string,
//	                bool for bool, right count) the function ran exactly once and its results come back:
//	                Go integers and floats as float64 numbers with the value the function returned, several
//	                results as a list, a trailing Go error as the error (and not among the results)
//	conversion      a number whose truncation lies in the range of the parameter's type arrives as that
//	                truncation (float32: rounded to nearest), whatever else is in the vector
//	wrong vectors   too many / too few arguments, a wrong kind or NULL for a numeric, string or bool parameter: an error
func VerifC19Adapter() {
	f := zz.Choice("f", len(c19Table))
	if only := zz.Param("ONLY", -1); only >= 0 {
		zz.Assume(f == only)
	}
	e := c19Table[f]
	maxArgs := zz.Param("MAXARGS", 3)
	argc := zz.Choice("argc", maxArgs+1)
	c19Fail = zz.Bool("fail")
	c19Calls = 0
	args := make([]interface{}, 0, 4)
	kinds := make([]int, 0, 4)
	for i := 0; i < argc; i++ {
		k := zz.Choice("k"+c19ArgNames[i], c19AKinds)
		kinds = append(kinds, k)
		args = append(args, c19Arg(c19ArgNames[i], k))
	}
	ad := NewECALFunctionAdapter(reflect.ValueOf(e.fn), "doc")
	zz.Reach("before-run")
	ret, err := ad.Run("", nil, nil, 1, args)
	zz.Reach("after-run")

	zz.Assert(c19Calls <= 1, "C19.function-ran-at-most-once")

	// do the arguments fit the signature in the plain sense?
	fits := argc == len(e.params) && !e.variadic
	wrong := argc > len(e.params) || (argc < len(e.params) && !e.variadic) // wrong count
	for i := 0; i < argc && i < len(e.params); i++ {
		p := e.params[i]
		ok := false
		switch {
		case p <= c19PFloat64:
			ok = kinds[i] == c19ANum
			wrong = wrong || !ok
		case p == c19PString:
			ok = kinds[i] == c19AStr
			wrong = wrong || !ok
		case p == c19PBool:
			ok = kinds[i] == c19ABool
			wrong = wrong || !ok
		case p == c19PList && !e.variadic:
			ok = kinds[i] == c19AList
			wrong = wrong || kinds[i] == c19ANum || kinds[i] == c19AStr || kinds[i] == c19ABool || kinds[i] == c19AMap || kinds[i] == c19ANull
		}
		fits = fits && ok
	}
	if wrong {
		zz.Reach("wrong-vector")
		zz.Assert(err != nil, "C19.wrong-argument-vector-yields-an-error")
		zz.Assert(c19Calls == 0, "C19.function-not-run-on-a-wrong-argument-vector")
	}

	// conversion: whenever the function ran, numeric parameters hold the converted numbers
	if c19Calls == 1 {
		for i := 0; i < len(e.params) && i < argc; i++ {
			p := e.params[i]
			if kinds[i] != c19ANum || p > c19PFloat64 {
				continue
			}
			x := args[i].(float64)
			switch {
			case p == c19PFloat64:
				zz.Assert(zz.SameFloat(c19Recv[i], x), "C19.float64-argument-arrives-unchanged")
			case p == c19PFloat32:
				zz.Assert(zz.SameFloat(c19Recv[i], float64(float32(x))), "C19.float32-argument-arrives-rounded")
			default:
				lo, hi, _ := c19Range(p)
				t := math.Trunc(x)
				if t >= lo && t < hi {
					zz.Reach("in-range-integer")
					zz.Assert(c19Recv[i] == c19AsFloat(p, t), "C19.integer-argument-arrives-as-the-truncated-number")
				}
			}
		}
	}

	if !fits {
		return
	}
	zz.Reach("fitting-vector")
	zz.Assert(c19Calls == 1, "C19.function-ran-once-on-a-fitting-argument-vector")
	if e.panics {
		zz.Assert(err != nil, "C19.panicking-function-yields-an-error")
		return
	}
	if e.hasErr {
		zz.Assert((err != nil) == c19Fail, "C19.trailing-go-error-delivered-as-the-error")
	} else {
		zz.Assert(err == nil, "C19.no-error-on-a-fitting-argument-vector")
	}
	// results: numbers as float64 with the returned value
	switch e.results {
	case 0:
		l, isList := ret.([]interface{})
		zz.Assert(ret == nil || (isList && len(l) == 0), "C19.no-result-value-for-a-function-without-results")
	case 1:
		p := e.params[0]
		switch {
		case f == 19: // (a int, b float64) (float64, error): returns b
			r, ok := ret.(float64)
			zz.Assert(ok, "C19.float-result-delivered-as-number")
			zz.Assert(zz.SameFloat(r, args[1].(float64)), "C19.result-value")
		case f == 16:
			r, ok := ret.(float64)
			zz.Assert(ok && r == 2, "C19.int-result-delivered-as-number")
		case p <= c19PFloat64:
			r, ok := ret.(float64)
			zz.Assert(ok, "C19.numeric-result-delivered-as-number")
			zz.Assert(zz.SameFloat(r, c19Recv[0]), "C19.result-value")
		case p == c19PString:
			r, ok := ret.(string)
			zz.Assert(ok && r == c19RecvS+"!" && c19RecvS == args[0].(string), "C19.string-argument-and-result")
		case p == c19PBool:
			r, ok := ret.(bool)
			zz.Assert(ok && r == !c19RecvB && c19RecvB == args[0].(bool), "C19.bool-argument-and-result")
		}
	case 2:
		l, ok := ret.([]interface{})
		zz.Assert(ok && len(l) == 2, "C19.several-results-delivered-as-a-list")
		if ok && len(l) == 2 {
			r0, ok0 := l[0].(float64)
			r1, ok1 := l[1].(float64)
			zz.Assert(ok0 && ok1, "C19.numeric-results-delivered-as-numbers")
			zz.Assert(zz.SameFloat(r0, args[0].(float64)), "C19.result-value")
			if f == 24 {
				zz.Assert(zz.SameFloat(r1, -args[0].(float64)), "C19.result-value")
			} else {
				zz.Assert(zz.SameFloat(r1, c19Recv[1]), "C19.result-value")
			}
		}
	}
}

// c19AsFloat: the float64 a recording function stores for the integer value t (already truncated, in range).
// Every in-range integer below 2^53 in magnitude is stored exactly; larger 64-bit values are stored after the
// int->float64 rounding of the recording function, which maps the (integral, hence exactly converted) t to t.
func c19AsFloat(p int, t float64) float64 { return t }
