// Package zzverif: harness API (symbolic implementation: every call is intercepted by gosym;
// the bodies below are never executed and only keep the package well-typed).
package zzverif

func Byte(label string) byte              { return 0 }
func Int(label string) int                { return 0 }
func Bool(label string) bool              { return false }
func Float64(label string) float64        { return 0 }
func Bytes(label string, n int) []byte    { return make([]byte, n) }
func Len(label string, lo, hi int) int    { return lo }
func Choice(label string, n int) int      { return 0 }
func Param(name string, def int) int      { return def }
func Assume(c bool)                       {}
func Assert(c bool, msg string)           {}
func Reach(label string)                  {}
func Native() bool                        { return false }
func Known(name, label string, c bool)    {}
func OneOf(b byte, alphabet string) bool  { return false }
func Terminates(fn string, n int)         {}
func SameFloat(a, b float64) bool         { return a == b || (a != a && b != b) }
func Schedule(maxPreempt int)             {}
func ScheduleRacy(maxPreempt int)         {}
func ScheduleEraser(maxPreempt int)       {}
func Quiesce()                            {}
func At(site string)                      {}
func Done(site string)                    {}
func Replace(name string, fn interface{}) {}
func ReportRaces()                         {}
func ReportHeapRaces()                     {}
func LiveGoroutines() int                  { return 0 }
func Ite(c bool, a, b int) int            { if c { return a }; return b }
func Digest(label, text string)            {}
