package parser

import zz "github.com/krotik/ecal/zzverif"

// c18RefLineCol recomputes line and column (bytes, from 1) of byte offset pos.
func c18RefLineCol(src []byte, pos int) (int, int) {
	line, col := 1, 1
	for i := 0; i < pos && i < len(src); i++ {
		if src[i] == '\n' {
			line++
			col = 1
		} else {
			col++
		}
	}
	return line, col
}

// c18HashOnPrevLine: the line that ends at the last newline before pos contains a '#'
// (signature of the listed finding: the newline ending a '#' comment does not reset the column base).
func c18HashOnPrevLine(src []byte, pos int) bool {
	q := -1
	for i := 0; i < pos && i < len(src); i++ {
		if src[i] == '\n' {
			q = i
		}
	}
	if q < 0 {
		return false
	}
	for i := q - 1; i >= 0 && src[i] != '\n'; i-- {
		if src[i] == '#' {
			return true
		}
	}
	return false
}

// VerifC18LexPositions: for every input of exactly N bytes, every token's (Lline, Lpos) equals the
// line/column recomputed from its byte offset.
func VerifC18LexPositions() {
	n := zz.Param("N", 3)
	src := zz.Bytes("src", n)
	if zz.Param("ASCII", 1) == 1 {
		for i := range src {
			zz.Assume(src[i] < 0x80)
		}
	}
	alpha := zz.Param("ALPHA", 0)
	if alpha == 1 {
		for i := range src {
			zz.Assume(zz.OneOf(src[i], "a1 \n#/*\"r\\"))
		}
	}
	toks := LexToList("h", string(src))
	zz.Reach("lexed")
	for _, t := range toks {
		if t.ID == TokenEOF || t.ID == TokenError {
			continue
		}
		line, col := c18RefLineCol(src, t.Pos)
		zz.Assert(t.Lline == line, "C18.line")
		zz.Known("C18-hash-comment-column", "C18.column", c18HashOnPrevLine(src, t.Pos)) // the listed finding concerns the column only
		zz.Assert(t.Lpos == col, "C18.column")
	}
}

var c18Seps = []string{" ", "\n", " # c\n", " /* c */ ", " /* c */\n", "\n/* c\n c */\n", " /* c\n */ ", "\n\n", "\t\n  ", " # a # b\n", "/**/", "\n# c\n# d\n", "/*\n*/", " /*\n c */ ", "/*\n\n*/\n", "/*\r\n*/", "\r\n", " # c\r\n", "\r\n# c\r\n# d\r\n"}

// values of the first statement: numbers, quoted strings, raw strings spanning lines (also with a backslash at the end of a line)
var c18Vals = []string{"1", "\"s\"", "r\"x\"", "r\"x\ny\"", "r\"x\\\ny\"", "r'x\\\n'", "r\"a\n\nb\\\\\nc\"", "'x\\\\'"}

func c18Newlines(s string) int {
	n := 0
	for i := 0; i < len(s); i++ {
		if s[i] == '\n' {
			n++
		}
	}
	return n
}

// VerifC18Separation: statement separation is decided from token lines and is unaffected by comments: two
// assignments separated by an arrangement of comments/whitespace are two statements iff the arrangement contains a
// newline (inside or outside a comment); and a parser error for a planted offending token carries the line and
// column where the token stands.
func VerifC18Separation() {
	s1 := c18Seps[zz.Choice("sep1", len(c18Seps))]
	s2 := c18Seps[zz.Choice("sep2", len(c18Seps))]
	v1 := "1"
	if zz.Param("VALUES", 0) == 1 {
		v1 = c18Vals[zz.Choice("val1", len(c18Vals))]
	}
	src := "a := " + v1 + s1 + "b := 2"
	ast, err := Parse("t", src)
	zz.Reach("parsed")
	if c18Newlines(s1) > 0 {
		zz.Assert(err == nil && ast != nil && ast.Name == NodeSTATEMENTS && len(ast.Children) == 2, "C18.newline-separates-statements-comments-do-not-matter")
	} else if c18Newlines(v1) == 0 {
		zz.Assert(err != nil, "C18.no-newline-no-separation")
	}
	// every token of the text carries the position of its first character
	for _, t := range LexToList("t", src) {
		if t.ID == TokenEOF || t.ID == TokenError {
			continue
		}
		line, col := c18RefLineCol([]byte(src), t.Pos)
		zz.Assert(t.Lline == line, "C18.line")
		zz.Known("C18-hash-comment-column", "C18.column", c18HashOnPrevLine([]byte(src), t.Pos))
		zz.Assert(t.Lpos == col, "C18.column")
	}
	// planted offending token ')' after a second arrangement
	prefix := "a := " + v1 + s1 + "b := 2" + s2
	src2 := prefix + ")"
	_, err2 := Parse("t", src2)
	zz.Assert(err2 != nil, "C18.offending-token-rejected")
	if pe, ok := err2.(*Error); ok && pe.Type != ErrUnexpectedEnd && c18Newlines(s1) > 0 {
		line, col := c18RefLineCol([]byte(src2), len(prefix))
		zz.Known("C18-hash-comment-column", "C18.parser-error-column", c18HashOnPrevLine([]byte(src2), len(prefix)))
		if pe.Detail == ")" || pe.Line == line {
			zz.Assert(pe.Line == line, "C18.parser-error-line")
			zz.Assert(pe.Pos == col, "C18.parser-error-column")
		}
	}
}
