package parser

import zz "github.com/krotik/ecal/zzverif"

// c18RefLineCol recomputes line and column (bytes, from 1) of byte offset pos.
func c18RefLineCol(src []byte, pos int) (int, int) {
	line, col := 1, 1
	for i := 0; i < pos && i < len(src); i++ {
		if src[i] == '\n' {
			line++
			col = 1
		} else {
			col++
		}
	}
	return line, col
}

// c18HashOnPrevLine: the line that ends at the last newline before pos contains a '#'
// (signature of the listed finding: the newline ending a '#' comment does not reset the column base).
func c18HashOnPrevLine(src []byte, pos int) bool {
	q := -1
	for i := 0; i < pos && i < len(src); i++ {
		if src[i] == '\n' {
			q = i
		}
	}
	if q < 0 {
		return false
	}
	for i := q - 1; i >= 0 && src[i] != '\n'; i-- {
		if src[i] == '#' {
			return true
		}
	}
	return false
}

// VerifC18LexPositions: for every input of exactly N bytes, every token's (Lline, Lpos) equals the
// line/column recomputed from its byte offset.
func VerifC18LexPositions() {
	n := zz.Param("N", 3)
	src := zz.Bytes("src", n)
	if zz.Param("ASCII", 1) == 1 {
		for i := range src {
			zz.Assume(src[i] < 0x80)
		}
	}
	alpha := zz.Param("ALPHA", 0)
	if alpha == 1 {
		for i := range src {
			zz.Assume(zz.OneOf(src[i], "a1 \n#/*\"r\\"))
		}
	}
	toks := LexToList("h", string(src))
	zz.Reach("lexed")
	for _, t := range toks {
		if t.ID == TokenEOF || t.ID == TokenError {
			continue
		}
		line, col := c18RefLineCol(src, t.Pos)
		zz.Known("C18-hash-comment-column", "C18.pos", c18HashOnPrevLine(src, t.Pos))
		zz.Assert(t.Lline == line && t.Lpos == col, "C18.pos")
	}
}
