package parser

import zz "github.com/krotik/ecal/zzverif"

var c08BinOps = []string{"+", "-", "*", "/", "//", "%", "<", "==", ">=", "and", "or", "like", "in", "hasprefix", "notin"}
var c08BinBinding = []int{110, 110, 120, 120, 120, 120, 60, 60, 60, 40, 30, 60, 60, 60, 60}
var c08PreOps = []string{"-", "+", "not "}
var c08PreBinding = []int{110, 110, 20}

// c08Same: equality up to token positions, comments and blank lines: node kinds, values, nesting,
// raw-versus-interpolating string kind.
func c08Same(a, b *ASTNode) bool {
	if a == nil || b == nil {
		return a == b
	}
	if a.Name != b.Name || len(a.Children) != len(b.Children) {
		return false
	}
	constant := a.Name == NodeTRUE || a.Name == NodeFALSE || a.Name == NodeNULL // the kind is the value (an else branch is a synthesised guard "true")
	if !constant && (a.Token == nil) != (b.Token == nil) {
		return false
	}
	if a.Token != nil && b.Token != nil && !constant && (a.Token.Val != b.Token.Val || a.Token.AllowEscapes != b.Token.AllowEscapes || a.Token.Identifier != b.Token.Identifier) {
		return false
	}
	for i := range a.Children {
		if !c08Same(a.Children[i], b.Children[i]) {
			return false
		}
	}
	return true
}

// c08RoundTrip: parse -> print -> parse gives the same tree; printing that again gives the same text.
func c08RoundTrip(src string) {
	ast, err := Parse("t", src)
	if err != nil {
		return // only texts that parse are in the scope of the property
	}
	zz.Reach("parsed")
	pp, err := PrettyPrint(ast)
	zz.Assert(err == nil, "C08.print-succeeds")
	ast2, err := Parse("t", pp)
	zz.Reach("reparsed")
	zz.Assert(err == nil, "C08.printed-text-parses")
	if err != nil {
		return
	}
	zz.Assert(c08Same(ast, ast2), "C08.same-tree-after-round-trip")
	pp2, err := PrettyPrint(ast2)
	zz.Assert(err == nil && pp2 == pp, "C08.printing-is-idempotent")
}

// VerifC08Operators: every binary operator nested under every other on either side, with the nested pair in
// parentheses, plus prefix operators over binary ones and as left operands.
func VerifC08Operators() {
	shape := zz.Choice("shape", 4)
	o1 := zz.Choice("op1", len(c08BinOps))
	o2 := zz.Choice("op2", len(c08BinOps))
	pr := zz.Choice("pre", len(c08PreOps))
	var src string
	lost := false // signature of the listed finding: parentheses that are needed but that the printer's rule omits
	kept := func(parent, child int, childName string) bool {
		return (childName == "+" || childName == "-" || childName == "and" || childName == "or") && parent > child
	}
	switch shape {
	case 0: // a OP1 (b OP2 c): needed iff OP2 binds not stronger than OP1
		src = "a " + c08BinOps[o1] + " (b " + c08BinOps[o2] + " c)"
		lost = c08BinBinding[o2] <= c08BinBinding[o1] && !kept(c08BinBinding[o1], c08BinBinding[o2], c08BinOps[o2])
	case 1: // (a OP1 b) OP2 c: needed iff OP1 binds weaker than OP2
		src = "(a " + c08BinOps[o1] + " b) " + c08BinOps[o2] + " c"
		lost = c08BinBinding[o1] < c08BinBinding[o2] && !kept(c08BinBinding[o2], c08BinBinding[o1], c08BinOps[o1])
	case 2: // PRE (a OP1 b): needed iff OP1 does not bind stronger than the operand of the prefix operator
		src = c08PreOps[pr] + "(a " + c08BinOps[o1] + " b)"
		lost = c08BinBinding[o1] <= c08PreBinding[pr]+20 && !kept(c08PreBinding[pr], c08BinBinding[o1], c08BinOps[o1])
	case 3: // (PRE a) OP1 b: needed iff OP1 binds stronger than the operand of the prefix operator
		src = "(" + c08PreOps[pr] + "a) " + c08BinOps[o1] + " b"
		lost = c08BinBinding[o1] > c08PreBinding[pr]+20
	}
	zz.Known("C08-needed-parentheses-dropped", "C08.same-tree-after-round-trip", lost)
	c08RoundTrip(src)
}

var c08Statements = []string{
	"a := 1",
	"if a {\n    b\n}",
	"if a {\n    b\n} elif c {\n    d\n} else {\n    e\n}",
	"if true {\n    b\n}",
	"if a {\n    b\n} elif true {\n    c\n}",
	"for a in range(1, 2) {\n    b\n}",
	"for a > 1 {\n    break\n}",
	"for [a, b] in c {\n    continue\n}",
	"func f(a, b=1) {\n    return a\n}",
	"f := func (a) {\n}",
	"try {\n    a\n} except \"E\", \"F\" as e {\n    b\n} except {\n    c\n} otherwise {\n    d\n} finally {\n    e\n}",
	"mutex m {\n    a := 1\n}",
	"sink s\n    kindmatch [\"a\"],\n    scopematch [],\n    statematch {\"a\" : 1},\n    priority 1,\n    suppresses [\"t\"]\n    {\n        a\n    }",
	"import \"a/b\" as c",
	"let a := 1",
	"a := [1, 2, 3, 4]",
	"a := [1, 2, 3, 4, 5]",
	"a := {\"a\" : 1, \"b\" : 2}",
	"a := {\"a\" : 1, \"b\" : 2, \"c\" : 3}",
	"a.b[1].c(1, 2).d := x[1][2]",
	"return",
	"a := 1 # comment\nb := 2",
	"/* comment */\na := 1",
	"a := 1\n\n\nb := 2",
	"a := -1 + +2",
	"a := not b == c",
	"a := null",
	"a := \"x{{1 + 2}}y\"",
	"a := r\"x{{1 + 2}}y\"",
	"a := 'it\"s'",
	"a := \"q\\\\\"",
	"x := foo([1, 2, 3, 4, 5])[0]",
	"x := foo({\"a\" : 1, \"b\" : 2, \"c\" : 3}).b",
	"mutex m {\n    a := 1\n}\nb := 2",
	"sink s\n    kindmatch [\"a\"],\n    {\n        a\n    }\nb := 2",
	"a := [[1, 2, 3, 4, 5], 6]",
	"for i in range(1, 10 % 3) {\n    a := i % 2\n}",
}

// c08KnownStatement: statement templates that hit listed findings (index -> finding)
func c08KnownStatement(i int) {
	zz.Known("C08-raw-string-printed-as-interpolating", "C08.same-tree-after-round-trip", i == 28)
	zz.Known("C08-access-after-multiline-container-argument", "C08.same-tree-after-round-trip", i == 31)
	zz.Known("C08-blank-lines-grow-after-mutex-or-sink-block", "C08.printing-is-idempotent", i == 33 || i == 34)
}

// VerifC08Statements: every statement kind, optionally nested in a block of another statement kind.
func VerifC08Statements() {
	i := zz.Choice("stmt", len(c08Statements))
	c08KnownStatement(i)
	src := c08Statements[i]
	switch zz.Choice("nest", 4) {
	case 1:
		src = "if x {\n" + src + "\n}"
	case 2:
		src = "func g() {\n" + src + "\n}"
	case 3:
		src = "try {\n" + src + "\n} finally {\n" + src + "\n}"
	}
	c08RoundTrip(src)
}

// VerifC08Parameters: function parameter defaults and call arguments with a symbolic operator or a symbolic string
// (alphabet with the printf meta character %) survive printing.
func VerifC08Parameters() {
	var part string
	if zz.Bool("stringDefault") {
		b := zz.Bytes("str", 2)
		zz.Assume(zz.OneOf(b[0], "a%d \\"))
		zz.Assume(zz.OneOf(b[1], "a%d \\"))
		part = "\"" + string(b) + "\""
	} else {
		part = "10 " + c08BinOps[zz.Choice("op", len(c08BinOps))] + " 3"
	}
	var src string
	switch zz.Choice("place", 4) {
	case 0:
		src = "func f(a, b=" + part + ") {\n    return a\n}"
	case 1:
		src = "x := f(1, " + part + ")"
	case 2:
		src = "f := func (b=" + part + ") {\n}"
	case 3:
		src = "x := {\"k\" : " + part + ", \"l\" : [" + part + "]}"
	}
	c08RoundTrip(src)
}

// VerifC08Strings: string literal bodies of N bytes over an alphabet with quotes, backslash, braces and newline
// in the four literal forms; the token value and the raw/interpolating kind survive printing.
func VerifC08Strings() {
	n := zz.Param("N", 2)
	body := zz.Bytes("body", n)
	for i := range body {
		zz.Assume(zz.OneOf(body[i], "a\"'\\{}\n"))
	}
	form := zz.Choice("form", 4)
	var src string
	switch form {
	case 0:
		src = "\"" + string(body) + "\""
	case 1:
		src = "'" + string(body) + "'"
	case 2:
		src = "r\"" + string(body) + "\""
	case 3:
		src = "r'" + string(body) + "'"
	}
	zz.Known("C08-raw-string-printed-as-interpolating", "C08.same-tree-after-round-trip", form >= 2)
	c08RoundTrip("x := " + src)
}


var c08Lenient = []string{
	"a := [1, 2,]",
	"a := [1 2]",
	"a := {\"a\" : 1,}",
	"a := {\"a\" : 1 \"b\" : 2}",
	"a := 1; b := 2",
	"a := 1;",
	"f(1, 2,)",
	"f(1 2)",
	"func f(a b) {\n}",
	"func f(a, b,) {\n}",
	"sink s kindmatch [\"a\"] priority 1 {\n a\n}",
	"sink s kindmatch [\"a\"], priority 1, {\n a\n}",
	"sink s\n kindmatch [\"a\"]\n scopematch []\n {\n a\n}",
	"if (a) {\n b\n}",
	"for (a in b) {\n}",
	"for a in b {}",
	"if a {} else {}",
	"import \"a\" as b;",
	"mutex m {}",
	"return (1)",
	"a := (1)",
	"a := ((b))",
	"a := b . c",
	"a := b [ 1 ]",
	"a := f ( 1 )",
	"[a, b] := c",
	"let [a, b] := c",
	"[a,b,] := c",
	"try {} except {}",
	"try {} finally {}",
	"a := -(-1)",
	"a := - - 1",
	"a := not not b",
}

// VerifC08LenientForms: source forms the parser accepts although the printer writes them differently (optional or
// dangling separators, optional parentheses and blanks, one-line blocks) and every shape of an except clause (0..2
// error names separated by commas or blanks, no binder / "as e" / bare "e"): whatever parses survives the round trip.
func VerifC08LenientForms() {
	if zz.Bool("exceptShape") {
		n := zz.Choice("names", 3)
		sep := zz.Choice("sep", 2)
		bind := zz.Choice("bind", 4)
		src := "try {\n    a\n} except"
		for i := 0; i < n; i++ {
			if i > 0 && sep == 0 {
				src += ","
			}
			src += " \"E" + c08Digits[i] + "\""
		}
		switch bind {
		case 1:
			src += " as e"
		case 2:
			src += " e"
		case 3:
			src += ", e"
		}
		src += " {\n    b\n}"
		c08RoundTrip(src)
		return
	}
	c08RoundTrip(c08Lenient[zz.Choice("form", len(c08Lenient))])
}

var c08Digits = []string{"0", "1", "2"}

var c08CommentBases = []string{
	"a := 1 + 2",
	"if a { b } else { c }",
	"for a in range(1, 2) { b }",
	"func f(a, b=1) { return a + 1 }",
	"try { a } except \"E\" as e { b } finally { c }",
	"a := [1, 2]",
	"a := {\"k\" : 1}",
	"f(1, 2).b[0] := x",
	"let a := not b",
	"mutex m { a := 1 }",
	"import \"a/b\" as c",
	"sink s kindmatch [\"a\"], priority 1 { a }",
}
var c08CommentForms = []string{"/* c */", "# c\n", "/* c */\n", "\n", "/* a */ /* b */", "# a\n# b\n", "\n\n/* c */\n\n", "/**/", "#\n"}

func c08Fields(s string) []string {
	var out []string
	cur := ""
	for i := 0; i < len(s); i++ {
		if s[i] == ' ' {
			if cur != "" {
				out = append(out, cur)
			}
			cur = ""
		} else {
			cur += s[i : i+1]
		}
	}
	if cur != "" {
		out = append(out, cur)
	}
	return out
}

// VerifC08Comments: a comment (block, line, with and without line breaks, two in a row, empty ones) or a bare line break inserted at
// a symbolic token boundary of every statement kind: whatever parses prints to text that parses to the same tree up to
// comments, and printing is idempotent.  (Comments may be dropped or moved - they are outside the comparison - but they
// must not change the tree or make the printer oscillate.)
func VerifC08Comments() {
	b := zz.Choice("base", len(c08CommentBases))
	toks := c08Fields(c08CommentBases[b])
	pos := zz.Choice("position", len(toks)+1)
	form := zz.Choice("comment", len(c08CommentForms))
	src := ""
	for i, t := range toks {
		if i == pos {
			src += c08CommentForms[form] + " "
		}
		src += t + " "
	}
	if pos == len(toks) {
		src += c08CommentForms[form]
	}
	// listed known findings: the printer places the comments of nodes INSIDE a statement without regard to what follows on
	// the line (a '#' comment swallows the rest of the statement, a block comment splits it, layouts oscillate); two block
	// comments before a statement swap places on every run
	inside := pos != 0 && pos != len(toks)
	zz.Known("C08-comment-inside-a-statement-breaks-the-printed-text", "C08.", inside)
	zz.Known("C08-two-block-comments-before-a-statement-swap", "C08.printing-is-idempotent", pos == 0 && form == 4)
	c08RoundTrip(src)
}
