package parser

import zz "github.com/krotik/ecal/zzverif"

// VerifC07LexTotal: for every input of N arbitrary bytes the lexer terminates, does not panic, closes its
// channel and ends the token stream with exactly one EOF or Error token (nothing after it).
func VerifC07LexTotal() {
	n := zz.Param("N", 3)
	src := zz.Bytes("src", n)
	if zz.Param("ASCII", 1) == 1 {
		for i := range src {
			zz.Assume(src[i] < 0x80)
		}
	}
	zz.LiveGoroutines()
	toks := LexToList("h", string(src))
	zz.Reach("lexed")
	zz.Assert(zz.LiveGoroutines() == 0, "C07.lexer-goroutine-finished")
	zz.Assert(len(toks) >= 1, "C07.token-stream-not-empty")
	lastTok := toks[len(toks)-1]
	zz.Assert(lastTok.ID == TokenEOF || lastTok.ID == TokenError, "C07.token-stream-ends-with-eof-or-error")
	for i, t := range toks {
		if i < len(toks)-1 {
			zz.Assert(t.ID != TokenEOF, "C07.nothing-after-eof")
		}
	}
}
