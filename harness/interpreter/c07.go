package interpreter

import (
	"github.com/krotik/ecal/parser"
	zz "github.com/krotik/ecal/zzverif"
)

var c07Texts = []string{"a", "1", "\"s\"", "(", ")", "{", "}", ";", "+", ":=", "if", "\n",
	"[", "]", ",", ":", "func", "return", "for", "in", "try", "except", "-", "not", ".", "else", "finally", "sink", "mutex", "import", "as", "let", "break", "elif", ">", "'x", "and", "*"}
var c07Lbl = []string{"0", "1", "2", "3", "4", "5", "6", "7", "8", "9"}

// c07NoNil: no missing node, every node has a kind name, recursively.
func c07NoNil(n *parser.ASTNode) bool {
	if n == nil || n.Name == "" {
		return false
	}
	for _, c := range n.Children {
		if !c07NoNil(c) {
			return false
		}
	}
	return true
}

func c07Is(n *parser.ASTNode, names ...string) bool {
	for _, x := range names {
		if n.Name == x {
			return true
		}
	}
	return false
}

// c07Shape: every node has the number and kinds of children its kind requires - the shapes that validation,
// evaluation and the pretty printer index without checking (written from the grammar in ecal.md).
func c07Shape(n *parser.ASTNode) bool {
	c := n.Children
	ok := true
	switch {
	case c07Is(n, parser.NodeIF):
		ok = len(c) >= 2 && len(c)%2 == 0
		for i := 0; ok && i < len(c); i += 2 {
			ok = c[i].Name == parser.NodeGUARD && len(c[i].Children) == 1 && c[i+1].Name == parser.NodeSTATEMENTS
		}
	case c07Is(n, parser.NodeLOOP):
		ok = len(c) == 2 && c[1].Name == parser.NodeSTATEMENTS && c07Is(c[0], parser.NodeGUARD, parser.NodeIN)
	case c07Is(n, parser.NodeGUARD, parser.NodeNOT, parser.NodeLET, parser.NodeOTHERWISE, parser.NodeFINALLY):
		ok = len(c) == 1
	case c07Is(n, parser.NodeASSIGN, parser.NodeKVP, parser.NodePRESET, parser.NodeTIMES, parser.NodeDIV, parser.NodeDIVINT, parser.NodeMODINT,
		parser.NodeGEQ, parser.NodeLEQ, parser.NodeNEQ, parser.NodeEQ, parser.NodeGT, parser.NodeLT, parser.NodeAND, parser.NodeOR,
		parser.NodeLIKE, parser.NodeIN, parser.NodeHASPREFIX, parser.NodeHASSUFFIX, parser.NodeNOTIN, parser.NodeMUTEX, parser.NodeIMPORT):
		ok = len(c) == 2
	case c07Is(n, parser.NodePLUS, parser.NodeMINUS):
		ok = len(c) == 1 || len(c) == 2
	case c07Is(n, parser.NodeMAP):
		for i := 0; ok && i < len(c); i++ {
			ok = c[i].Name == parser.NodeKVP // evaluation reads key and value of every entry unconditionally
		}
	case c07Is(n, parser.NodeRETURN):
		ok = len(c) <= 1
	case c07Is(n, parser.NodeTRY):
		ok = len(c) >= 1 && c[0].Name == parser.NodeSTATEMENTS
		for i := 1; ok && i < len(c); i++ {
			ok = c07Is(c[i], parser.NodeEXCEPT, parser.NodeOTHERWISE, parser.NodeFINALLY)
		}
	case c07Is(n, parser.NodeEXCEPT):
		ok = len(c) >= 1 && c[len(c)-1].Name == parser.NodeSTATEMENTS
	case c07Is(n, parser.NodeFUNC):
		ok = (len(c) == 2 || len(c) == 3) && c[len(c)-1].Name == parser.NodeSTATEMENTS && c[len(c)-2].Name == parser.NodePARAMS
	case c07Is(n, parser.NodeSINK):
		ok = len(c) >= 2 && c[len(c)-1].Name == parser.NodeSTATEMENTS
	}
	if !ok {
		return false
	}
	for _, x := range c {
		if !c07Shape(x) {
			return false
		}
	}
	return true
}

// c07Check parses src with the real lexer, parser and runtime provider and asserts the C07 post-conditions.
// The consumers the statement names (validation, evaluation, pretty printing) are run on every returned
// tree as the judge of well-formedness: they must not panic.
func c07Check(src string, eval bool) {
	erp, _ := zzProvider()
	zz.LiveGoroutines() // baseline
	ast, err := parser.ParseWithRuntime("t", src, erp)
	zz.Reach("parsed")
	zz.Assert(zz.LiveGoroutines() == 0, "C07.no-goroutine-outlives-the-parse")
	zz.Assert((ast == nil) != (err == nil), "C07.tree-xor-error")
	if err != nil {
		pe, ok := err.(*parser.Error)
		// the end of the input has no token to point at; every other error carries line and column
		zz.Assert(ok && (pe.Type == parser.ErrUnexpectedEnd || (pe.Line >= 1 && pe.Pos >= 1)), "C07.error-is-positioned")
		return
	}
	zz.Reach("tree")
	zz.Assert(c07NoNil(ast), "C07.no-missing-node")
	if !c07NoNil(ast) {
		return
	}
	zz.Assert(c07Shape(ast), "C07.children-as-the-node-kind-requires")
	ast.Runtime.Validate() // structural walk by the real validator: must not panic
	parser.PrettyPrint(ast)
	zz.Reach("printed")
	if eval {
		if ast.Runtime.Validate() == nil {
			vs := zzScope()
			vs.SetValue("a", 1.0)
			ast.Runtime.Eval(vs, make(map[string]interface{}), 1)
		}
		zz.Reach("evaluated")
	}
}

// VerifC07Tokens: every sequence of K tokens out of the first T texts of the table (separated by blanks).
func VerifC07Tokens() {
	k := zz.Param("K", 3)
	t := zz.Param("T", 12)
	src := ""
	for i := 0; i < k; i++ {
		c := zz.Choice("t"+c07Lbl[i], t)
		src += c07Texts[c] + " "
	}
	c07Check(src, zz.Param("EVAL", 1) == 1)
}

var c07Bases = [][]string{
	{"if", "a", "{", "b", ";", "c", "}", "else", "{", "d", "}"},
	{"for", "a", "in", "[", "1", ",", "2", "]", "{", "b", ";", "break", "}"},
	{"func", "f", "(", "x", ",", "y", ")", "{", "return", "x", "+", "y", "}"},
	{"try", "{", "a", ";", "b", "}", "except", "e", "{", "c", "}", "finally", "{", "d", "}"},
	{"mutex", "m", "{", "a", ":=", "1", ";", "b", "}"},
	{"a", ":=", "{", "\"k\"", ":", "[", "1", ",", "2", "]", "}"},
	{"sink", "s", "kindmatch", "[", "\"a\"", "]", ",", "{", "a", ";", "b", "}"},
	{"a", ":=", "f", "(", "1", ",", "b", ".", "c", ")", "[", "0", "]"},
	{"if", "a", "{", "b", "}", "elif", "c", "{", "d", "}", "else", "{", "e", "}"},
	{"for", "a", ">", "1", "{", "b", "}"},
	{"a", "[", "1", "]", ":=", "b", "[", "'x'", "]", ".", "c"},
	{"if", "a", "{", "b", "}", "elif", "c", "{", "}", "else", "{", "e", "}"},
	// containers nested in containers (map in map, map in list in map), as a literal, as call arguments, as a sink attribute
	{"a", ":=", "{", "\"k\"", ":", "{", "\"j\"", ":", "1", "}", ",", "\"l\"", ":", "[", "{", "\"m\"", ":", "2", "}", "]", "}"},
	{"f", "(", "{", "\"k\"", ":", "1", "}", ",", "[", "{", "\"j\"", ":", "2", "}", "]", ")"},
	{"sink", "s", "kindmatch", "[", "\"a\"", "]", ",", "statematch", "{", "\"a\"", ":", "{", "\"b\"", ":", "1", "}", "}", ",", "{", "a", "}"},
	// several top-level statements (whole-program checks have to cover every one of them)
	{"a", ":=", "{", "\"k\"", ":", "1", "}", "\n", "b", ":=", "[", "1", "]", "\n", "c", ":=", "{", "\"j\"", ":", "2", "}"},
}

// VerifC07Mutations: a valid base program with MUT positions replaced by an arbitrary token of the table,
// deleted or duplicated.
func VerifC07Mutations() {
	bi := zz.Choice("base", len(c07Bases))
	if only := zz.Param("BASE", -1); only >= 0 {
		zz.Assume(bi == only)
	}
	base := c07Bases[bi]
	toks := append([]string(nil), base...)
	muts := zz.Param("MUT", 1)
	t := zz.Param("T", 12)
	for m := 0; m < muts; m++ {
		pos := zz.Choice("pos"+c07Lbl[m], len(toks))
		switch zz.Choice("kind"+c07Lbl[m], 4) {
		case 3: // delete a whole block { ... } (a clause left without its block)
			end := pos
			if toks[pos] == "{" {
				depth := 0
				for j := pos; j < len(toks); j++ {
					if toks[j] == "{" {
						depth++
					} else if toks[j] == "}" {
						depth--
						if depth == 0 {
							end = j
							break
						}
					}
				}
			}
			toks = append(append([]string(nil), toks[:pos]...), toks[end+1:]...)
		case 0: // replace
			toks[pos] = c07Texts[zz.Choice("tok"+c07Lbl[m], t)]
		case 1: // delete
			toks = append(append([]string(nil), toks[:pos]...), toks[pos+1:]...)
		case 2: // duplicate
			toks = append(append(append([]string(nil), toks[:pos+1]...), toks[pos]), toks[pos+1:]...)
		}
	}
	src := ""
	for _, x := range toks {
		src += x + " "
	}
	// EVAL=1: base programs without loops and calls of user functions are also evaluated (a mutation of one token cannot
	// turn them into a non-terminating program); used by C06: whatever the parser accepts must evaluate without a panic
	c07Check(src, zz.Param("EVAL", 0) == 1 && (bi == 5 || bi == 7 || bi == 10 || bi >= 12))
}

var c07Fillers = []string{")", "a", "1", "{"}
var c07Tails = []string{"\"", "'abc", "/* x", "r\"q", "\"a{{", "#", "a.", "\x01", ""}
var c07Trail = []string{"", " ", "\n", " b"}

// VerifC07ErrorTail: the parser gives up early (or not) on a first token, M further filler tokens follow (more than
// the look-ahead buffer holds) and the input ends in a lexical error or an unfinished token, optionally followed by
// white space: whatever the lexer still has to deliver after the parser stopped listening, Parse returns with
// nothing left running.
func VerifC07ErrorTail() {
	first := zz.Choice("first", zz.Param("T", 38))
	f := zz.Choice("filler", len(c07Fillers))
	m := zz.Choice("m", zz.Param("M", 8)+1)
	tail := zz.Choice("tail", len(c07Tails))
	trail := zz.Choice("trail", len(c07Trail))
	src := c07Texts[first] + " "
	for i := 0; i < m; i++ {
		src += c07Fillers[f] + " "
	}
	src += c07Tails[tail] + c07Trail[trail]
	c07Check(src, false)
}
