package interpreter

import (
	"fmt"
	"strings"

	"github.com/krotik/ecal/parser"
	"github.com/krotik/ecal/scope"
	"github.com/krotik/ecal/util"
	zz "github.com/krotik/ecal/zzverif"
)

// c14EvalCode evaluates one interpolation expression exactly as the language defines it: the value's text,
// or an inline error marker.
func c14EvalCode(erp *ECALRuntimeProvider, node *parser.ASTNode, code string, vs parser.Scope, tid uint64) string {
	ast, ierr := parser.ParseWithRuntime(fmt.Sprintf("String interpolation: %v", code), code, erp)
	if ierr == nil {
		if ierr = ast.Runtime.Validate(); ierr == nil {
			var res interface{}
			res, ierr = ast.Runtime.Eval(vs.NewChild(scope.NameFromASTNode(node)), make(map[string]interface{}), tid)
			if ierr == nil {
				return fmt.Sprint(res)
			}
		}
	}
	return fmt.Sprintf("#%v", ierr.Error())
}

// c14Ref is the one-pass reference: left to right, each {{...}} group of the LITERAL is replaced once;
// substituted text is never looked at again.
func c14Ref(erp *ECALRuntimeProvider, node *parser.ASTNode, lit string, vs parser.Scope, tid uint64) (string, int) {
	out := ""
	rest := lit
	groups := 0
	for {
		s := strings.Index(rest, "{{")
		if s < 0 {
			break
		}
		e := strings.Index(rest[s+2:], "}}")
		if e < 0 {
			break
		}
		code := rest[s+2 : s+2+e]
		groups++
		out += rest[:s] + c14EvalCode(erp, node, code, vs, tid)
		rest = rest[s+2+e+2:]
	}
	return out + rest, groups
}

// VerifC14Interpolation: for every literal value of N bytes over the alphabet, evaluating the string node
// (a) does not panic, (b) terminates, (c) yields exactly the one-pass reference result, (d) a raw
// string is returned untouched.  Variable `a` holds text that looks like an interpolation group.
func VerifC14Interpolation() {
	erp := &ECALRuntimeProvider{Name: "t", Logger: util.NewMemoryLogger(10)}
	ast, err := parser.ParseWithRuntime("t", "\"x\"", erp)
	zz.Assert(err == nil, "C14.setup-parse")
	n := zz.Param("N", 4)
	lit := zz.Bytes("lit", n)
	alpha := "{}a"
	if zz.Param("ALPHA", 0) == 1 {
		alpha = "{}a +"
	}
	for i := range lit {
		zz.Assume(zz.OneOf(lit[i], alpha))
	}
	raw := zz.Bool("raw")
	ast.Token.Val = string(lit)
	ast.Token.AllowEscapes = !raw
	ast.Runtime.Validate()
	vs := scope.NewScope(scope.GlobalScope)
	vs.SetValue("a", "{{a}}") // data that looks like code (and would reproduce itself if re-scanned)

	zz.Known("C14-end-marker-before-start", "slice bounds out of range", c14EndBeforeStart(lit) && !raw)
	zz.Known("C14-substituted-text-rescanned", "more than", c14HasGroupA(lit) && !raw)
	zz.Known("C14-substituted-text-rescanned", "C14.one-pass-result", c14HasGroupA(lit) && !raw)

	zz.Terminates("(*github.com/krotik/ecal/interpreter.stringValueRuntime).Eval", n/4+3)
	zz.Reach("before-eval")
	res, err := ast.Runtime.Eval(vs, make(map[string]interface{}), 1)
	zz.Reach("after-eval")
	str, isStr := res.(string)
	zz.Assert(isStr && err == nil, "C14.yields-string")
	if raw {
		zz.Assert(str == string(lit), "C14.raw-untouched")
		return
	}
	ref, _ := c14Ref(erp, ast, string(lit), vs, 1)
	zz.Assert(str == ref, "C14.one-pass-result")
}

// c14EndBeforeStart: signature of a listed finding - the first "}}" of the literal lies before the end of its first "{{".
func c14EndBeforeStart(lit []byte) bool {
	s := strings.Index(string(lit), "{{")
	e := strings.Index(string(lit), "}}")
	return s >= 0 && e >= 0 && e < s+2
}

// c14HasGroupA: signature of a listed finding - the literal contains a group that evaluates to text containing "{{".
func c14HasGroupA(lit []byte) bool {
	return strings.Contains(string(lit), "{{a}}")
}

var c14Segs = []string{"x", "{{a}}", "{{b}}", "{{c()}}", "{{", "}}", " "}
var c14Vals = []string{"v", "{{a}}", "{{b}}", "{{c()}}", "}}", "{{", "{{a}} {{b}}"}
var c14Calls int

type c14Counter struct {
	*inbuildBaseFunc
	ret string
}

func (f *c14Counter) Run(instanceID string, vs parser.Scope, is map[string]interface{}, tid uint64, args []interface{}) (interface{}, error) {
	c14Calls++
	return f.ret, nil
}
func (f *c14Counter) DocString() (string, error) { return "", nil }

// VerifC14Segments: literals built from K segments (text, the groups {{a}} {{b}} {{c()}}, stray markers) while the
// variables a, b and the result of c() hold text that looks like groups of the same literal: the result is the one-pass
// reference result, and c() - which counts its calls - runs once per {{c()}} group of the literal, never for a {{c()}}
// that arrived as data.
func VerifC14Segments() {
	erp := &ECALRuntimeProvider{Name: "t", Logger: util.NewMemoryLogger(10)}
	ast, err := parser.ParseWithRuntime("t", "\"x\"", erp)
	zz.Assert(err == nil, "C14.setup-parse")
	k := zz.Param("K", 3)
	lit := ""
	for i := 0; i < k; i++ {
		lit += c14Segs[zz.Choice("seg"+c07Lbl[i], len(c14Segs))]
	}
	vs := scope.NewScope(scope.GlobalScope)
	vs.SetValue("a", c14Vals[zz.Choice("a", len(c14Vals))])
	vs.SetValue("b", c14Vals[zz.Choice("b", len(c14Vals))])
	InbuildFuncMap["c"] = &c14Counter{ret: c14Vals[zz.Choice("c", zz.Param("CV", 3)+1)]}
	ast.Token.Val = lit
	ast.Token.AllowEscapes = true
	ast.Runtime.Validate()
	zz.Terminates("(*github.com/krotik/ecal/interpreter.stringValueRuntime).Eval", k+2)
	c14Calls = 0
	zz.Reach("before-eval")
	res, err := ast.Runtime.Eval(vs, make(map[string]interface{}), 1)
	zz.Reach("after-eval")
	got := c14Calls
	str, isStr := res.(string)
	zz.Assert(isStr && err == nil, "C14.yields-string")
	c14Calls = 0
	ref, _ := c14Ref(erp, ast, lit, vs, 1)
	zz.Assert(str == ref, "C14.one-pass-result")
	zz.Assert(got == c14Calls, "C14.each-own-expression-evaluated-once")
}

// c14NestRef: the text f(n) evaluates to in the program of VerifC14Nested.
func c14NestRef(n int) string {
	if n == 0 {
		return "."
	}
	return "<" + c14NestRef(n-1) + "|" + c14NestRef(0) + ">"
}

// VerifC14Nested: evaluating a group of a literal may evaluate the SAME literal again (a function whose interpolated
// string calls the function recursively) and other literals: every evaluation still yields its own groups replaced left
// to right, whatever happened while a group was being evaluated.  Recursion depth symbolic.
func VerifC14Nested() {
	erp, _ := zzProvider()
	vs := zzScope()
	n := zz.Choice("depth", zz.Param("DEPTH", 3)+1)
	vs.SetValue("N", float64(n))
	src := "func f(n) {\n  if n == 0 {\n    return \".\"\n  }\n  return \"<{{f(n - 1)}}|{{f(0)}}>\"\n}\n" +
		"func g(x) {\n  return \"[{{x}}]\"\n}\n" +
		"r := f(N)\nq := \"{{g(f(N))}}{{g(1)}}\""
	zz.Reach("before-eval")
	_, err := zzRun(erp, src, vs)
	zz.Reach("after-eval")
	zz.Assert(err == nil, "C14.evaluates")
	if err != nil {
		return
	}
	r, _, _ := vs.GetValue("r")
	q, _, _ := vs.GetValue("q")
	zz.Assert(r == interface{}(c14NestRef(n)), "C14.one-pass-result")
	zz.Assert(q == interface{}("["+c14NestRef(n)+"][1]"), "C14.one-pass-result")
}

// groups that parse and validate but fail when they are evaluated, next to ones that fail earlier and ones that succeed
var c14FailGroups = []string{"{{nosuchfunction()}}", "{{1 + \"x\"}}", "{{raise(\"E\", \"d\")}}", "{{[1][5]}}", "{{1 +}}", "{{a}}", "{{1 + 2}}"}

// VerifC14FailingGroups: "... or an inline error marker if it fails": a literal of text, a first group, text, a second
// group, text, both groups chosen from ones that fail at run time (unknown function, wrong operand kind, raise, index out
// of range), fail at parse time, or succeed: the result is the one-pass reference (value text or "#<error>" per group).
func VerifC14FailingGroups() {
	erp, _ := zzProvider()
	vs := zzScope()
	vs.SetValue("a", "v")
	g1 := c14FailGroups[zz.Choice("group1", len(c14FailGroups))]
	g2 := c14FailGroups[zz.Choice("group2", len(c14FailGroups))]
	lit := "x" + g1 + "y" + g2 + "z"
	ast, err := parser.ParseWithRuntime("t", "\"placeholder\"", erp)
	zz.Assert(err == nil && ast.Runtime.Validate() == nil, "C14.setup")
	ast.Token.Val = lit
	ast.Token.AllowEscapes = true
	zz.Reach("before-eval")
	res, err := ast.Runtime.Eval(vs, make(map[string]interface{}), 1)
	zz.Reach("after-eval")
	zz.Assert(err == nil, "C14.any-arrangement-yields-a-string")
	str, ok := res.(string)
	zz.Assert(ok, "C14.any-arrangement-yields-a-string")
	ref, _ := c14Ref(erp, ast, lit, vs, 1)
	zz.Assert(str == ref, "C14.one-pass-result")
}
