package interpreter

import (
	"github.com/krotik/ecal/parser"
	"github.com/krotik/ecal/util"
	zz "github.com/krotik/ecal/zzverif"
)

var c04Trace []float64

type c04Mark struct{ *inbuildBaseFunc }

func (f *c04Mark) Run(instanceID string, vs parser.Scope, is map[string]interface{}, tid uint64, args []interface{}) (interface{}, error) {
	c04Trace = append(c04Trace, args[0].(float64))
	return nil, nil
}
func (f *c04Mark) DocString() (string, error) { return "", nil }

func c04Setup() (*ECALRuntimeProvider, parser.Scope) {
	InbuildFuncMap["mark"] = &c04Mark{}
	c04Trace = nil
	erp, _ := zzProvider()
	return erp, zzScope()
}

// c04SameTrace asserts that the interpreter's trace equals the reference trace (same length, same numbers).
func c04SameTrace(ref []float64) {
	zz.Assert(len(c04Trace) == len(ref), "C04.trace-length")
	if len(c04Trace) != len(ref) {
		return
	}
	for i := range ref {
		zz.Assert(zz.SameFloat(c04Trace[i], ref[i]), "C04.trace")
	}
}

// handler exit inside the first handler (mark 5): hk 0 fall through, 1 raise a new error, 2 return, 3 break, 4 continue
const c04HX = "  if hk == 1 {\n raise(\"W\")\n } elif hk == 2 {\n return 6\n } elif hk == 3 {\n break\n } elif hk == 4 {\n continue\n }\n"

var c04Handlers = []string{
	"",
	" except {\n mark(5)\n" + c04HX + " }",
	" except \"T\" {\n mark(5)\n" + c04HX + " }",
	" except \"T\" as e {\n mark(5)\n" + c04HX + " }",
	" except \"T\", \"U\" {\n mark(5)\n" + c04HX + " }",
	" except e {\n mark(5)\n" + c04HX + " }",
	" except \"T\" {\n mark(5)\n" + c04HX + " } except {\n mark(6)\n }",
	" except e {\n mark(5)\n" + c04HX + " } except {\n mark(6)\n }",
	" except \"T\" {\n mark(5)\n" + c04HX + " } except \"T\", \"U\" as e2 {\n mark(6)\n }",
}
var c04Types = []string{"T", "U", "V"}

// c04Handled: reference - which handler mark (0 = unhandled) an error of the given type gets under handler shape h:
// the FIRST clause that lists the type (or lists none) handles it.  typ "" stands for a runtime error.
func c04Handled(h int, typ string) float64 {
	switch h {
	case 1, 5, 7:
		return 5
	case 2, 3:
		if typ == "T" {
			return 5
		}
	case 4:
		if typ == "T" || typ == "U" {
			return 5
		}
	case 6:
		if typ == "T" {
			return 5
		}
		return 6
	case 8:
		if typ == "T" {
			return 5
		}
		if typ == "U" {
			return 6
		}
	}
	return 0
}

const (
	c04Normal = iota
	c04Break
	c04Continue
	c04Return
	c04Error
)

// VerifC04TryInLoop: a try statement with a symbolic handler shape, optional otherwise and a finally inside a loop
// inside a function; the try block leaves by a symbolic exit kind (fall through, break, continue, return, raised
// error of symbolic type, runtime error) and the first handler leaves by a symbolic exit kind as well (fall through,
// new error, return, break, continue).  Trace of marks, result and error type equal the reference.
func VerifC04TryInLoop() {
	erp, vs := c04Setup()
	h := zz.Choice("handlers", len(c04Handlers))
	o := zz.Bool("otherwise")
	k := zz.Choice("exit", 6)
	hk := zz.Choice("handlerExit", 5)
	ti := zz.Choice("type", len(c04Types))
	n := zz.Choice("iterations", 2) + 1
	src := "func f(k, t) {\n for i in range(1, n) {\n  try {\n   mark(1)\n" +
		"   if k == 1 {\n break\n } elif k == 2 {\n continue\n } elif k == 3 {\n return 5\n } elif k == 4 {\n raise(t)\n } elif k == 5 {\n x := 1 + \"a\"\n }\n" +
		"   mark(2)\n  }" + c04Handlers[h]
	if o {
		src += " otherwise {\n mark(7)\n }"
	}
	src += " finally {\n mark(9)\n }\n  mark(3)\n }\n mark(4)\n return 0\n}\nf(k, t)"
	vs.SetValue("k", float64(k))
	vs.SetValue("hk", float64(hk))
	vs.SetValue("t", c04Types[ti])
	vs.SetValue("n", float64(n))
	res, err := zzRun(erp, src, vs)
	zz.Reach("evaluated")
	// ---- reference ----
	var ref []float64
	var refRes float64
	refErr := "" // "" none, else error type text ("RT" for the runtime error)
	done := false
	returned := false
	for i := 1; i <= n && !done; i++ {
		ref = append(ref, 1)
		// outcome of the try block
		out, outErr := c04Normal, ""
		switch k {
		case 0:
			ref = append(ref, 2)
		case 1:
			out = c04Break
		case 2:
			out = c04Continue
		case 3:
			out, refRes = c04Return, 5
		case 4:
			out, outErr = c04Error, c04Types[ti]
		case 5:
			out, outErr = c04Error, "RT"
		}
		if out == c04Error {
			typ := outErr
			if typ == "RT" {
				typ = ""
			}
			if m := c04Handled(h, typ); m != 0 {
				ref = append(ref, m)
				out, outErr = c04Normal, ""
				if m == 5 { // the first handler leaves by its own exit kind
					switch hk {
					case 1:
						out, outErr = c04Error, "W"
					case 2:
						out, refRes = c04Return, 6
					case 3:
						out = c04Break
					case 4:
						out = c04Continue
					}
				}
			}
		} else if out == c04Normal && o {
			ref = append(ref, 7)
		}
		ref = append(ref, 9) // finally runs exactly once on every way out
		switch out {
		case c04Normal:
			ref = append(ref, 3)
		case c04Break:
			done = true
		case c04Continue:
		case c04Return:
			done, returned = true, true
		case c04Error:
			done, refErr = true, outErr
		}
	}
	if refErr == "" && !returned {
		ref = append(ref, 4)
	}
	c04SameTrace(ref)
	if refErr != "" {
		zz.Assert(err != nil, "C04.unhandled-error-propagates")
		if err != nil {
			if refErr == "RT" {
				re, ok := err.(*util.RuntimeError)
				zz.Assert(ok && re.Type == util.ErrNotANumber, "C04.error-propagates-unchanged")
			} else {
				re, ok := err.(*util.RuntimeErrorWithDetail)
				zz.Assert(ok && re.Type.Error() == refErr, "C04.error-propagates-unchanged")
			}
		}
		return
	}
	zz.Assert(err == nil, "C04.no-error-expected")
	if err == nil {
		zz.Assert(res == interface{}(refRes), "C04.result")
	}
}

// VerifC04Loops: range loops (inclusive end, positive and negative step), list and map iteration (keys in string
// order), condition loops, break/continue acting on the innermost loop.
func VerifC04Loops() {
	erp, vs := c04Setup()
	var ref []float64
	var src string
	tmpl := zz.Choice("template", 5)
	if only := zz.Param("TEMPLATE", -1); only >= 0 {
		zz.Assume(tmpl == only)
	}
	switch tmpl {
	case 0: // range with symbolic bounds and step
		// bounds and step are split into one path per value (a symbolic int-to-float conversion makes every
		// loop-condition query a 64-bit to_fp problem that z3 does not finish in useful time)
		a, b := zz.Len("a", -2, 2), zz.Len("b", -2, 2)
		s := []int{-2, -1, 1, 2}[zz.Len("step", 0, 3)]
		// a range whose step points away from its end never terminates (user non-termination: outside the property)
		zz.Assume((s > 0 && a <= b) || (s < 0 && a >= b))
		vs.SetValue("a", float64(a))
		vs.SetValue("b", float64(b))
		vs.SetValue("s", float64(s))
		src = "for i in range(a, b, s) {\n mark(i)\n}\nmark(100)"
		if s > 0 {
			for i := a; i <= b; i += s {
				ref = append(ref, float64(i))
			}
		} else {
			for i := a; i >= b; i += s {
				ref = append(ref, float64(i))
			}
		}
		ref = append(ref, 100)
	case 1: // list iteration with break / continue at symbolic positions
		kb, kc := zz.Choice("breakAt", 5), zz.Choice("continueAt", 5)
		vs.SetValue("kb", float64(kb))
		vs.SetValue("kc", float64(kc))
		src = "for x in [1, 2, 3] {\n if x == kb {\n break\n }\n if x == kc {\n continue\n }\n mark(x)\n}\nmark(100)"
		for x := 1; x <= 3; x++ {
			if x == kb {
				break
			}
			if x == kc {
				continue
			}
			ref = append(ref, float64(x))
		}
		ref = append(ref, 100)
	case 2: // map iteration as [key, value], keys in string order
		src = "m := {\"b\" : 2, \"a\" : 1, \"c\" : 3}\nfor [k, v] in m {\n mark(v)\n}\nmark(100)"
		ref = []float64{1, 2, 3, 100}
	case 3: // condition loop
		x := zz.Len("x", 0, 3)
		vs.SetValue("x", float64(x))
		src = "for x > 0 {\n x := x - 1\n mark(x)\n}\nmark(100)"
		for y := x; y > 0; {
			y--
			ref = append(ref, float64(y))
		}
		ref = append(ref, 100)
	case 4: // nested loops: break and continue act on the innermost loop
		kb, kc := zz.Choice("breakAt", 4), zz.Choice("continueAt", 4)
		vs.SetValue("kb", float64(kb))
		vs.SetValue("kc", float64(kc))
		src = "for i in range(1, 2) {\n for j in range(1, 3) {\n  if j == kb {\n break\n }\n  if j == kc {\n continue\n }\n  mark(i * 10 + j)\n }\n mark(i)\n}\nmark(100)"
		for i := 1; i <= 2; i++ {
			for j := 1; j <= 3; j++ {
				if j == kb {
					break
				}
				if j == kc {
					continue
				}
				ref = append(ref, float64(i*10+j))
			}
			ref = append(ref, float64(i))
		}
		ref = append(ref, 100)
	}
	_, err := zzRun(erp, src, vs)
	zz.Reach("evaluated")
	zz.Assert(err == nil, "C04.no-error-expected")
	c04SameTrace(ref)
}

// VerifC04Guards: if/elif/else runs the first branch whose guard is true; return leaves the innermost function.
func VerifC04Guards() {
	erp, vs := c04Setup()
	g1, g2 := zz.Bool("g1"), zz.Bool("g2")
	k := zz.Choice("k", 3)
	vs.SetValue("g1", g1)
	vs.SetValue("g2", g2)
	vs.SetValue("k", float64(k))
	src := "func inner(k) {\n if k == 1 {\n return 7\n }\n mark(1)\n return 8\n}\n" +
		"func outer(k) {\n r := inner(k)\n mark(2)\n return r + 1\n}\n" +
		"if g1 {\n mark(11)\n} elif g2 {\n mark(12)\n} else {\n mark(13)\n}\n" +
		"if g2 {\n mark(21)\n}\n" +
		"outer(k)"
	res, err := zzRun(erp, src, vs)
	zz.Reach("evaluated")
	var ref []float64
	switch {
	case g1:
		ref = append(ref, 11)
	case g2:
		ref = append(ref, 12)
	default:
		ref = append(ref, 13)
	}
	if g2 {
		ref = append(ref, 21)
	}
	want := 9.0
	if k == 1 {
		want = 8
	} else {
		ref = append(ref, 1)
	}
	ref = append(ref, 2)
	zz.Assert(err == nil, "C04.no-error-expected")
	c04SameTrace(ref)
	if err == nil {
		zz.Assert(res == interface{}(want), "C04.result")
	}
}

// c04LoopHead: source of a loop of the given kind running its variable v over 1, 2, 3.
// kind 0 range, 1 list, 2 map (as [key, value], keys in string order), 3 condition loop.
func c04LoopHead(kind int, v string) (pre, head string) {
	switch kind {
	case 0:
		return "", "for " + v + " in range(1, 3) {\n"
	case 1:
		return "", "for " + v + " in [1, 2, 3] {\n"
	case 2:
		return "m" + v + " := {\"c\" : 3, \"a\" : 1, \"b\" : 2}\n", "for [k" + v + ", " + v + "] in m" + v + " {\n"
	}
	return v + " := 0\n", "for " + v + " < 3 {\n " + v + " := " + v + " + 1\n"
}

// VerifC04LoopNest: a loop of any of the four kinds nested in a loop of any of the four kinds (both run 1..3),
// break and continue at symbolic positions in BOTH loops (optionally the nest sits inside a function and the
// inner position may return instead): break and continue act on the innermost loop, return leaves the function.
func VerifC04LoopNest() {
	erp, vs := c04Setup()
	ko, ki := zz.Choice("outerKind", 4), zz.Choice("innerKind", 4)
	if only := zz.Param("OUTER", -1); only >= 0 {
		zz.Assume(ko == only)
	}
	if only := zz.Param("INNER", -1); only >= 0 {
		zz.Assume(ki == only)
	}
	kbi, kci := zz.Choice("innerBreakAt", 4), zz.Choice("innerContinueAt", 4)
	kbo, kco := zz.Choice("outerBreakAt", 4), zz.Choice("outerContinueAt", 4)
	inFunc := zz.Bool("inFunction")
	kri := 0
	if inFunc {
		kri = zz.Choice("innerReturnAt", 4)
	}
	for n, v := range map[string]int{"kbi": kbi, "kci": kci, "kbo": kbo, "kco": kco, "kri": kri} {
		vs.SetValue(n, float64(v))
	}
	preO, headO := c04LoopHead(ko, "i")
	preI, headI := c04LoopHead(ki, "j")
	body := preO + headO + preI + headI +
		"  if j == kri {\n return 55\n }\n  if j == kbi {\n break\n }\n  if j == kci {\n continue\n }\n  mark(i * 10 + j)\n }\n" +
		" if i == kbo {\n break\n }\n if i == kco {\n continue\n }\n mark(i)\n}\nmark(100)\n"
	src := body
	if inFunc {
		src = "func f() {\n" + body + "return 77\n}\nr := f()\nmark(r)"
	}
	var ref []float64
	ret := 77.0
	func() {
		for i := 1; i <= 3; i++ {
			for j := 1; j <= 3; j++ {
				if inFunc && j == kri {
					ret = 55
					return
				}
				if j == kbi {
					break
				}
				if j == kci {
					continue
				}
				ref = append(ref, float64(i*10+j))
			}
			if i == kbo {
				break
			}
			if i == kco {
				continue
			}
			ref = append(ref, float64(i))
		}
		ref = append(ref, 100)
	}()
	if inFunc {
		ref = append(ref, ret)
	}
	_, err := zzRun(erp, src, vs)
	zz.Reach("evaluated")
	zz.Assert(err == nil, "C04.no-error-expected")
	c04SameTrace(ref)
}

// keys of different kinds, some with the same string form
var c04KeyUniverse = []interface{}{1.0, "1", true, "true", "a", 2.0, "2", "b"}
var c04KeyStrings = []string{"1", "1", "true", "true", "a", "2", "2", "b"}

// VerifC04MapLoop: a loop over a map runs once per element, as [key, value], keys in string order - for maps whose
// keys are of different kinds (number, string, boolean), including different keys with the same string form
// (their mutual order is not defined; every entry is still visited exactly once).
func VerifC04MapLoop() {
	erp, vs := c04Setup()
	n := len(c04KeyUniverse)
	c0 := zz.Choice("key0", n)
	c1 := zz.Choice("key1", n)
	c2 := zz.Choice("key2", n)
	zz.Assume(c0 < c1 && c1 < c2)
	m := map[interface{}]interface{}{}
	for _, c := range []int{c0, c1, c2} {
		m[c04KeyUniverse[c]] = float64(c)
	}
	vs.SetValue("m", m)
	single := zz.Bool("singleVariable")
	src := "for [k, v] in m {\n mark(v)\n}\nmark(100)"
	if single {
		src = "for x in m {\n mark(x[1])\n}\nmark(100)"
	}
	_, err := zzRun(erp, src, vs)
	zz.Reach("evaluated")
	zz.Assert(err == nil, "C04.no-error-expected")
	zz.Assert(len(c04Trace) == 4, "C04.map-loop-runs-once-per-element")
	if len(c04Trace) != 4 {
		return
	}
	zz.Assert(c04Trace[3] == 100, "C04.trace")
	seen := map[int]int{}
	prev := ""
	for i := 0; i < 3; i++ {
		c := int(c04Trace[i])
		zz.Assert(c == c0 || c == c1 || c == c2, "C04.map-loop-runs-once-per-element")
		if !(c == c0 || c == c1 || c == c2) {
			return
		}
		seen[c]++
		zz.Assert(seen[c] == 1, "C04.map-loop-runs-once-per-element")
		zz.Assert(prev <= c04KeyStrings[c], "C04.map-keys-in-string-order")
		prev = c04KeyStrings[c]
	}
}
