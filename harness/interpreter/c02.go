package interpreter

import (
	"github.com/krotik/ecal/engine"
	zz "github.com/krotik/ecal/zzverif"
)

// VerifC02EcalWait: the ECAL function addEventAndWait returns only after the sinks of the event and of the child event a
// sink added have run, and its result lists exactly the failing (event, sink) pairs with their error type; flags for
// "sink 1 fails", "sink 1 adds a child", "sink 2 (on the child) fails" and a scope restriction are symbolic.
func VerifC02EcalWait() {
	InbuildFuncMap["mark"] = &c02Mark{}
	c02Marks = nil
	erp, _ := zzProvider()
	erp.Processor = engine.NewProcessor(zz.Param("WORKERS", 1))
	vs := zzScope()
	fa, fb, child, scoped := zz.Bool("failA"), zz.Bool("failB"), zz.Bool("child"), zz.Bool("scopeDeniesB")
	vs.SetValue("FA", fa)
	vs.SetValue("FB", fb)
	vs.SetValue("CH", child)
	src := "sink s1\n  kindmatch [ \"a\" ],\n  {\n    mark(\"s1\")\n    if event.state.child {\n      addEvent(\"c\", \"b\", {\"fail\" : event.state.fb})\n    }\n" +
		"    if event.state.fa {\n      raise(\"EA\", \"detail a\", 1)\n    }\n    mark(\"s1end\")\n  }\n" +
		"sink s2\n  kindmatch [ \"b\" ],\n  scopematch [ \"zone\" ],\n  {\n    mark(\"s2\")\n    if event.state.fail {\n      raise(\"EB\", \"detail b\", 2)\n    }\n  }\n"
	if scoped {
		src += "res := addEventAndWait(\"e\", \"a\", {\"fa\" : FA, \"fb\" : FB, \"child\" : CH}, {\"\" : true, \"zone\" : false})\n"
	} else {
		src += "res := addEventAndWait(\"e\", \"a\", {\"fa\" : FA, \"fb\" : FB, \"child\" : CH}, {\"\" : true, \"zone\" : true})\n"
	}
	src += "mark(\"returned\")\n"
	if p := zz.Param("P", 0); p > 0 {
		zz.Schedule(p)
	}
	_, err := zzRun(erp, src, vs)
	zz.Reach("evaluated")
	zz.Assert(err == nil, "C02.ecal-wait-evaluates")
	if err != nil {
		return
	}
	// ---- reference ----
	s2runs := child && !scoped
	pos := func(m string) int {
		for i, x := range c02Marks {
			if x == m {
				return i
			}
		}
		return -1
	}
	count := func(m string) int {
		n := 0
		for _, x := range c02Marks {
			if x == m {
				n++
			}
		}
		return n
	}
	zz.Assert(count("s1") == 1 && pos("s1") < pos("returned"), "C02.wait-returns-after-the-event's-sink-ran")
	zz.Assert((count("s1end") == 1) == !fa, "C02.failing-sink-stops-at-its-error")
	if s2runs {
		zz.Assert(count("s2") == 1 && pos("s2") < pos("returned"), "C02.wait-returns-after-the-child-event's-sink-ran")
	} else {
		zz.Assert(count("s2") == 0, "C02.out-of-scope-or-absent-child-runs-nothing")
	}
	resv, _, _ := vs.GetValue("res")
	want := 0
	if fa {
		want++
	}
	if s2runs && fb {
		want++
	}
	if want == 0 {
		zz.Assert(resv == nil || len(resv.([]interface{})) == 0, "C02.no-error-entries-without-failures")
		return
	}
	res, ok := resv.([]interface{})
	zz.Assert(ok && len(res) == want, "C02.one-error-entry-per-failing-event")
	if !ok || len(res) != want {
		return
	}
	for _, it := range res {
		item := it.(map[interface{}]interface{})
		ev := item["event"].(map[interface{}]interface{})
		errs := item["errors"].(map[interface{}]interface{})
		zz.Assert(len(errs) == 1, "C02.error-attributed-to-its-rule")
		if ev["kind"] == "a" {
			e, has := errs["s1"].(map[interface{}]interface{})
			zz.Assert(fa && has && e["type"] == "EA" && e["detail"] == "detail a" && e["data"] == 1.0, "C02.error-entry-belongs-to-failing-event")
		} else {
			e, has := errs["s2"].(map[interface{}]interface{})
			zz.Assert(fb && has && ev["kind"] == "b" && e["type"] == "EB" && e["detail"] == "detail b" && e["data"] == 2.0, "C02.error-entry-belongs-to-failing-event")
		}
	}
}
