package interpreter

import (
	"github.com/krotik/ecal/engine"
	"github.com/krotik/ecal/parser"
	zz "github.com/krotik/ecal/zzverif"
)

var c06BinOps = []string{"+", "-", "*", "/", "//", "%", "==", "!=", ">", ">=", "<", "<=", "and", "or",
	"like", "hasprefix", "hassuffix", "in", "notin"}

// VerifC06BinaryOperators: x OP y for every binary operator and every pair of operand kinds with symbolic
// contents (numbers full-width float64): evaluation returns a value or an error, never panics.
// With TRY=1 the expression sits in try/except and an error must arrive in the handler.
func VerifC06BinaryOperators() {
	erp, _ := zzProvider()
	op := zz.Choice("op", len(c06BinOps))
	kx := zz.Choice("kx", zzKinds)
	ky := zz.Choice("ky", zzKinds)
	vs := zzScope()
	x := zzValue("x", kx)
	y := zzValue("y", ky)
	vs.SetValue("x", x)
	vs.SetValue("y", y)
	c06KnownOperators(op, kx, ky, x, y)
	zz.Reach("before-eval")
	if zz.Param("TRY", 0) == 1 {
		vs.SetValue("caught", false)
		vs.SetValue("r", "unset")
		_, err := zzRun(erp, "try {\n r := x "+c06BinOps[op]+" y\n} except e {\n caught := true\n}", vs)
		zz.Reach("after-eval")
		zz.Assert(err == nil, "C06.error-is-catchable-in-try")
		return
	}
	zzRun(erp, "x "+c06BinOps[op]+" y", vs)
	zz.Reach("after-eval")
}

var c06PreOps = []string{"-", "+", "not "}

// VerifC06PrefixOperators: prefix operators on every operand kind.
func VerifC06PrefixOperators() {
	erp, _ := zzProvider()
	op := zz.Choice("op", len(c06PreOps))
	kx := zz.Choice("kx", zzKinds)
	vs := zzScope()
	vs.SetValue("x", zzValue("x", kx))
	zz.Reach("before-eval")
	zzRun(erp, c06PreOps[op]+"x", vs)
	zz.Reach("after-eval")
}

// c06KnownOperators declares the signatures of listed known findings (inactive unless listed).
func c06KnownOperators(op, kx, ky int, x, y interface{}) {
}

var c06Builtins = []string{"range", "new", "type", "len", "del", "add", "concat", "doc", "raise", "addEvent"}
var c06ArgNames = []string{"a0", "a1", "a2", "a3"}

// VerifC06Builtins: every built-in (except the time/goroutine/environment ones) called through real ECAL
// source with 0..MAXARGS arguments of every kind: a value or an error, never a panic.
func VerifC06Builtins() {
	erp, _ := zzProvider()
	f := zz.Choice("f", len(c06Builtins))
	if only := zz.Param("ONLY", -1); only >= 0 {
		zz.Assume(f == only)
	}
	maxArgs := zz.Param("MAXARGS", 2)
	argc := zz.Choice("argc", maxArgs+1)
	if fixed := zz.Param("ARGC", -1); fixed >= 0 {
		zz.Assume(argc == fixed)
	}
	vs := zzScope()
	pre := ""
	src := c06Builtins[f] + "("
	for i := 0; i < argc; i++ {
		k := zz.Choice("k"+c06ArgNames[i], zzKinds)
		vs.SetValue(c06ArgNames[i], zzValue(c06ArgNames[i], k))
		if i > 0 {
			src += ", "
		}
		// FORMS=1: the argument is written as an identifier, an index access, a map access or a call returning the value
		form := 0
		if zz.Param("FORMS", 0) == 1 {
			form = zz.Choice("form"+c06ArgNames[i], 4)
		}
		switch form {
		case 0:
			src += c06ArgNames[i]
		case 1:
			vs.SetValue("w"+c06ArgNames[i], []interface{}{zzValueOf(vs, c06ArgNames[i])})
			src += "w" + c06ArgNames[i] + "[0]"
		case 2:
			vs.SetValue("m"+c06ArgNames[i], map[interface{}]interface{}{"k": zzValueOf(vs, c06ArgNames[i])})
			src += "m" + c06ArgNames[i] + ".k"
		case 3:
			pre += "func g" + c06ArgNames[i] + "() {\n return " + c06ArgNames[i] + "\n}\n"
			src += "g" + c06ArgNames[i] + "()"
		}
	}
	src += ")"
	zz.Reach("before-eval")
	zzRun(erp, pre+src, vs)
	zz.Reach("after-eval")
}

func zzValueOf(vs parser.Scope, name string) interface{} {
	v, _, _ := vs.GetValue(name)
	return v
}

var c06CycleMakers = []string{"c := [1, 2]\nc[0] := c", "c := {\"k\" : 1}\nc.k := c", "c := [[1]]\nc[0][0] := c", "c := [1]\nd := {\"k\" : c}\nc[0] := d"}
var c06CycleUsers = []string{"log(c)", "r := c == c", "r := \"{{c}}\"", "r := len(c)", "r := c in [c]", "r := concat(c, c)", "r := type(c)", "for x in c {\n r := x\n}", "r := c[0]", "error(c)", "raise(\"T\", \"d\", c)", "r := c != [1]"}

// VerifC06Cycles: a container that contains itself (directly, nested, or through a second container - reachable with
// plain assignments, no recursion written by the user) handed to every consumer of values: logging, comparison,
// interpolation, built-ins, loops, error data: a value or an error, never a panic or a stack overflow of the host.
func VerifC06Cycles() {
	erp, _ := zzProvider()
	vs := zzScope()
	mk := zz.Choice("maker", len(c06CycleMakers))
	us := zz.Choice("user", len(c06CycleUsers))
	// listed known finding: consumers that render the value as text (log, error, interpolation, type) recurse without end
	zz.Known("C06-self-referential-container-rendered-as-text-overflows-the-stack", "call depth", us == 0 || us == 2 || us == 6 || us == 9)
	zz.Reach("before-eval")
	zzRun(erp, c06CycleMakers[mk]+"\n"+c06CycleUsers[us], vs)
	zz.Reach("after-eval")
}

var c06Containers = []string{"[]", "[1]", "[1, 2]", "[1, [2, 3], 4]", "{}", "{\"a\" : 1}", "{1 : 2, \"b\" : {\"c\" : 3}}", "\"str\"", "5", "null"}
var c06Access = []string{"r := c[i]", "c[i] := 7", "r := c[i][i]", "c[i][i] := 7", "r := c.a", "r := c.a.b", "c.a.b := 1", "r := c[i].a", "r := c.i"}

// VerifC06ContainerAccess: index/key access and assignment on lists, maps and non-containers with an
// index of any kind (number full-width incl. negative, fractional, huge, NaN): error or value, never a panic.
func VerifC06ContainerAccess() {
	erp, _ := zzProvider()
	ci := zz.Choice("container", len(c06Containers))
	ai := zz.Choice("access", len(c06Access))
	ki := zz.Choice("ki", zzKinds)
	vs := zzScope()
	idx := zzValue("i", ki)
	if ki == zzKNum && zz.Param("SMALLINT", 0) == 1 {
		// integer-valued index in [-99,99]: its decimal rendering is encoded exactly (digit-wise)
		n := zz.Int("i_int")
		zz.Assume(n >= -99)
		zz.Assume(n <= 99)
		idx = float64(n)
	}
	vs.SetValue("i", idx)
	_, err := zzRun(erp, "c := "+c06Containers[ci], vs)
	zz.Assert(err == nil, "C06.setup")
	zz.Reach("before-eval")
	zzRun(erp, c06Access[ai], vs)
	zz.Reach("after-eval")
}

// VerifC06SinkAttributes: a sink declaration whose attribute values have arbitrary kinds is accepted or
// rejected with an error, never a panic.
func VerifC06SinkAttributes() {
	erp, _ := zzProvider()
	vs := zzScope()
	names := []string{"v0", "v1", "v2", "v3", "v4"}
	which := zz.Choice("attr", 5) // the attribute that gets an arbitrary value; the others are well-formed
	vs.SetValue("v0", []interface{}{"a.b"})
	vs.SetValue("v1", []interface{}{"s"})
	vs.SetValue("v2", map[interface{}]interface{}{"k": 1.0})
	vs.SetValue("v3", 5.0)
	vs.SetValue("v4", []interface{}{"other"})
	k := zz.Choice("kind", zzKinds)
	vs.SetValue(names[which], zzValue("v", k))
	zz.Reach("before-eval")
	_, err := zzRun(erp, "sink s1\n kindmatch v0,\n scopematch v1,\n statematch v2,\n priority v3,\n suppresses v4\n {\n r := 1\n }\n", vs)
	zz.Reach("after-eval")
	if err == nil {
		zz.Reach("accepted")
	} else {
		zz.Reach("rejected")
	}
}

// VerifC06EventState: an event whose state holds arbitrary ECAL values (lists and maps included) is matched
// against a sink with a state pattern and processed by one worker: no panic on the adding goroutine or
// on the worker.
func VerifC06EventState() {
	erp, _ := zzProvider()
	erp.Processor = engine.NewProcessor(1)
	vs := zzScope()
	pk := zz.Choice("patternKind", 4)
	var pat interface{}
	switch pk {
	case 0:
		pat = nil
	case 1:
		pat = zz.Float64("pat_f")
	case 2:
		pat = "a"
	case 3:
		pat = []interface{}{1.0}
	}
	vs.SetValue("pat", pat)
	_, err := zzRun(erp, "sink s1\n kindmatch [\"a\"],\n statematch {\"k\" : pat}\n {\n r := event.state.k\n }\n", vs)
	zz.Reach("declared")
	if err != nil {
		return
	}
	k := zz.Choice("stateKind", zzKinds)
	state := map[interface{}]interface{}{"k": zzValue("s", k)}
	erp.Processor.Start()
	zz.Reach("before-event")
	erp.Processor.AddEventAndWait(engine.NewEvent("e", []string{"a"}, state), nil)
	zz.Reach("after-event")
}

var c06Stmts = []string{
	"for x in v {\n}",
	"for [a, b] in v {\n}",
	"for [a, b, c] in v {\n}",
	"if v {\n}",
	"for v {\n break\n}",
	"v()",
	"v.a.b",
	"new(v)",
	"x := v.f(1)",
	"try {\n raise(v)\n} except e {\n}",
	"try {\n raise()\n} except e {\n}",
	"m := {v : 1}",
	"mutex m {\n x := v + 1\n}",
	"func f(a=v) {\n return a\n}\nf()",
	"x := [v, v][v]",
	"x := -v",
	"addEvent(v, v, v)",
	"raise(v, v, v)",
	"for i in range(v) {\n break\n}",
	"x := len(v) + 1",
	"doc(v)",
	"type(v)",
	"let v := v",
	"v := v[0]",
	"for [a, [b, c]] in v {\n}",
	"x := v in v",
	"return v",
	"try {\n x := v.a\n} except \"E\" as e {\n} finally {\n y := v[0]\n}",
}

// c06Value2: the value universe plus uneven nested lists (destructuring loops) and a map inside a list.
func c06Value2(label string, kind int) interface{} {
	switch kind {
	case zzKinds:
		return []interface{}{[]interface{}{1.0, 2.0}, []interface{}{3.0}}
	case zzKinds + 1:
		return []interface{}{[]interface{}{}}
	case zzKinds + 2:
		return []interface{}{map[interface{}]interface{}{"a": 1.0}, 2.0}
	case zzKinds + 3:
		return map[interface{}]interface{}{"a": map[interface{}]interface{}{"b": zz.Float64(label + "_ab")}, 1.0: "x"}
	}
	return zzValue(label, kind)
}

// VerifC06Statements: statement templates with a value of arbitrary kind in the position that expects a particular
// kind (iteration sources with uneven elements, guards, call targets, map keys, raise arguments, defaults ...).
func VerifC06Statements() {
	erp, _ := zzProvider()
	si := zz.Choice("stmt", len(c06Stmts))
	k := zz.Choice("kind", zzKinds+4)
	vs := zzScope()
	vs.SetValue("v", c06Value2("v", k))
	zz.Reach("before-eval")
	zzRun(erp, c06Stmts[si], vs)
	zz.Reach("after-eval")
}

var c06SinkBodies = []string{
	"x := \"abc\" like v",
	"x := v like \"(\"",
	"a := 1\n a.b := 2",
	"a := [1]\n a[v] := 2",
	"v.a := 1",
	"v[0] := 1",
	"[a, b] := v",
	"return v",
	"raise(v, v, v)",
	"x := v + 1",
	"x := 1 / v",
	"for [a, b] in v {\n}",
	"x := {v : 1}",
	"x := v()",
	"import \"nothing\" as n",
	"x := v.a.b",
	"mutex m {\n raise(\"E\", v)\n}",
	"try {\n x := -v\n} finally {\n y := v[1]\n}",
	"x := event.state[v]",
	"addEventAndWait(v, v, v)",
}

// VerifC06SinkBody: a sink whose body fails (or not) in one of many ways on a value of arbitrary kind taken from the
// event state - including failures that are plain Go errors rather than ECAL runtime errors - is triggered through the
// ECAL function addEventAndWait inside try (NESTED=1: from inside another sink, i.e. on a pool worker): no panic on the
// adding goroutine or a worker, the failure stays confined to that invocation (the program continues, a later event is
// still processed by a healthy sink) and the collected errors can be read and printed.
func VerifC06SinkBody() {
	InbuildFuncMap["mark"] = &c02Mark{}
	c02Marks = nil
	erp, _ := zzProvider()
	erp.Processor = engine.NewProcessor(zz.Param("WORKERS", 1))
	vs := zzScope()
	bi := zz.Choice("body", len(c06SinkBodies))
	k := zz.Choice("kind", zzKinds)
	vs.SetValue("V", zzValue("v", k))
	src := "sink s1\n kindmatch [ \"a\" ],\n {\n v := event.state.k\n " + c06SinkBodies[bi] + "\n }\n" +
		"sink sh\n kindmatch [ \"h\" ],\n {\n mark(\"healthy\")\n }\n"
	if zz.Param("NESTED", 0) == 1 {
		src += "sink so\n kindmatch [ \"o\" ],\n {\n r := addEventAndWait(\"e\", \"a\", {\"k\" : event.state.k})\n mark(\"inner:{{len(r)}}\")\n if len(r) > 0 {\n raise(\"Outer\", r[0].errors, r)\n }\n }\n" +
			"res := null\ntry {\n res := addEventAndWait(\"o\", \"o\", {\"k\" : V})\n} except e {\n res := e\n}\n"
	} else {
		src += "res := null\ntry {\n res := addEventAndWait(\"e\", \"a\", {\"k\" : V})\n} except e {\n res := e\n}\n"
	}
	src += "txt := \"{{res}}\"\nn := len(res)\nfor r in res {\n for [name, e] in r.errors {\n  t := \"{{e.type}} {{e.error}} {{e.detail}} {{e.data}}\"\n }\n}\naddEventAndWait(\"e2\", \"h\", {})\nmark(\"end\")\n"
	zz.Reach("before-eval")
	_, err := zzRun(erp, src, vs)
	zz.Reach("after-eval")
	zz.Assert(err == nil, "C06.sink-failure-does-not-fail-the-adding-program")
	if err != nil {
		return
	}
	h, e := 0, 0
	for _, m := range c02Marks {
		if m == "healthy" {
			h++
		}
		if m == "end" {
			e++
		}
	}
	zz.Assert(h == 1 && e == 1, "C06.later-event-still-processed-after-a-failing-sink")
}
