package interpreter

import (
	"sync"

	"github.com/krotik/ecal/parser"
	zz "github.com/krotik/ecal/zzverif"
)

var c12Occ = map[string]int{}
var c12MaxOcc = map[string]int{}
var c12Overlap bool
var c12Probe sync.Mutex

type c12Enter struct{ *inbuildBaseFunc }

func (f *c12Enter) Run(instanceID string, vs parser.Scope, is map[string]interface{}, tid uint64, args []interface{}) (interface{}, error) {
	name := args[0].(string)
	c12Occ[name]++
	if c12Occ[name] > c12MaxOcc[name] {
		c12MaxOcc[name] = c12Occ[name]
	}
	if c12Occ["a"] > 0 && c12Occ["b"] > 0 {
		c12Overlap = true
	}
	c12Probe.Lock() // a visible operation inside the block: other threads may be scheduled here
	c12Probe.Unlock()
	return nil, nil
}
func (f *c12Enter) DocString() (string, error) { return "", nil }

type c12Leave struct{ *inbuildBaseFunc }

func (f *c12Leave) Run(instanceID string, vs parser.Scope, is map[string]interface{}, tid uint64, args []interface{}) (interface{}, error) {
	c12Occ[args[0].(string)]--
	return nil, nil
}
func (f *c12Leave) DocString() (string, error) { return "", nil }

// thread body: a mutex block (name N) entered inside a loop inside a function; nested re-entrant block of
// the same name; exit kind k: 0 fall through, 1 error, 2 return, 3 break, 4 continue.  enter/leave bracket the
// critical section (leave in finally, i.e. still inside the block); cnt is only updated inside blocks named a.
func c12Body(name string) string {
	return "func w" + name + "(k) {\n" +
		"  for i in [1] {\n" +
		"    mutex " + name + " {\n" +
		"      try {\n" +
		"        enter(\"" + name + "\")\n" +
		"        mutex " + name + " {\n" +
		"          cnt" + name + " := cnt" + name + " + 1\n" +
		"        }\n" +
		"        if k == 1 {\n          raise(\"E\")\n        } elif k == 2 {\n          return 1\n        } elif k == 3 {\n          break\n        } elif k == 4 {\n          continue\n        }\n" +
		"      } finally {\n" +
		"        leave(\"" + name + "\")\n" +
		"      }\n" +
		"    }\n" +
		"  }\n" +
		"  return 0\n" +
		"}\n"
}

// VerifC12Mutex: T threads (symbolic pairwise distinct thread ids, symbolic exit kinds, symbolic block names)
// under all schedules with <= P pre-emptions: same-name blocks never overlap, nesting does not block,
// different names can overlap, every exit releases (a later entrant gets in), no update is lost.
func VerifC12Mutex() {
	InbuildFuncMap["enter"] = &c12Enter{}
	InbuildFuncMap["leave"] = &c12Leave{}
	c12Occ["a"], c12Occ["b"], c12MaxOcc["a"], c12MaxOcc["b"], c12Overlap = 0, 0, 0, 0, false
	erp, _ := zzProvider()
	vs := zzScope()
	vs.SetValue("cnta", 0.0)
	vs.SetValue("cntb", 0.0)
	_, err := zzRun(erp, c12Body("a")+c12Body("b"), vs)
	zz.Assert(err == nil, "C12.setup")
	nt := zz.Param("T", 2)
	tids := make([]uint64, nt)
	names := make([]int, nt)
	exits := make([]int, nt)
	asts := make([]*parser.ASTNode, nt)
	scopes := make([]parser.Scope, nt)
	lbl := []string{"0", "1", "2"}
	for t := 0; t < nt; t++ {
		tids[t] = uint64(zz.Choice("tid"+lbl[t], zz.Param("TIDS", 4)))
		for u := 0; u < t; u++ {
			zz.Assume(tids[t] != tids[u])
		}
		names[t] = zz.Choice("name"+lbl[t], zz.Param("NAMES", 2))
		k := zz.Choice("exit"+lbl[t], zz.Param("EXITS", 5))
		exits[t] = k
		scopes[t] = vs.NewChild("thread" + lbl[t])
		scopes[t].SetLocalValue("k", float64(k))
		// each thread enters its block twice: first with the symbolic exit kind, then falling through
		src := "wa(k)\nwa(0)"
		if names[t] == 1 {
			src = "wb(k)\nwb(0)"
		}
		if zz.Param("TWICE", 1) == 0 {
			src = src[:5] // one block per thread
		}
		a, err := parser.ParseWithRuntime("t", src, erp)
		zz.Assert(err == nil && a.Runtime.Validate() == nil, "C12.setup-thread")
		asts[t] = a
	}
	zz.Schedule(zz.Param("P", 2))
	var wg sync.WaitGroup
	wg.Add(nt)
	for t := 0; t < nt; t++ {
		t := t
		go func() {
			asts[t].Runtime.Eval(scopes[t], make(map[string]interface{}), tids[t])
			wg.Done()
		}()
	}
	wg.Wait()
	zz.Reach("all-done")
	zz.Assert(c12MaxOcc["a"] <= 1 && c12MaxOcc["b"] <= 1, "C12.mutual-exclusion")
	na := 0
	for t := 0; t < nt; t++ {
		if names[t] == 0 {
			na++ // first block
			if exits[t] != 1 && zz.Param("TWICE", 1) == 1 {
				na++ // second block (not reached when the first call raised an error)
			}
		}
	}
	cnt, _, _ := vs.GetValue("cnta")
	zz.Assert(cnt == float64(na), "C12.no-lost-update")
	if c12Overlap {
		zz.Reach("different-names-overlap")
	}
	// every exit released its mutex: a later entrant with a fresh thread id gets in (otherwise: deadlock)
	_, err = zzRunTid(erp, "mutex a {\n cnta := cnta + 1\n}\nmutex b {\n cntb := cntb + 1\n}", vs, 9)
	zz.Assert(err == nil, "C12.later-entrant-gets-in")
	zz.Reach("later-entrant-done")
}
