package interpreter

import (
	"sync"

	"github.com/krotik/ecal/engine"
	"github.com/krotik/ecal/parser"
	zz "github.com/krotik/ecal/zzverif"
)

var c12Occ = map[string]int{}
var c12MaxOcc = map[string]int{}
var c12Overlap bool
var c12Probe sync.Mutex

type c12Enter struct{ *inbuildBaseFunc }

func (f *c12Enter) Run(instanceID string, vs parser.Scope, is map[string]interface{}, tid uint64, args []interface{}) (interface{}, error) {
	name := args[0].(string)
	c12Occ[name]++
	if c12Occ[name] > c12MaxOcc[name] {
		c12MaxOcc[name] = c12Occ[name]
	}
	if c12Occ["a"] > 0 && c12Occ["b"] > 0 {
		c12Overlap = true
	}
	c12Probe.Lock() // a visible operation inside the block: other threads may be scheduled here
	c12Probe.Unlock()
	return nil, nil
}
func (f *c12Enter) DocString() (string, error) { return "", nil }

type c12Leave struct{ *inbuildBaseFunc }

func (f *c12Leave) Run(instanceID string, vs parser.Scope, is map[string]interface{}, tid uint64, args []interface{}) (interface{}, error) {
	c12Occ[args[0].(string)]--
	return nil, nil
}
func (f *c12Leave) DocString() (string, error) { return "", nil }

// thread body: a mutex block (name N) entered inside a loop inside a function; nested re-entrant block of
// the same name; exit kind k: 0 fall through, 1 error, 2 return, 3 break, 4 continue.  enter/leave bracket the
// critical section (leave in finally, i.e. still inside the block); cnt is only updated inside blocks named a.
func c12Body(name string) string {
	return "func w" + name + "(k) {\n" +
		"  for i in [1] {\n" +
		"    mutex " + name + " {\n" +
		"      try {\n" +
		"        enter(\"" + name + "\")\n" +
		"        mutex " + name + " {\n" +
		"          cnt" + name + " := cnt" + name + " + 1\n" +
		"        }\n" +
		"        if k == 1 {\n          raise(\"E\")\n        } elif k == 2 {\n          return 1\n        } elif k == 3 {\n          break\n        } elif k == 4 {\n          continue\n        }\n" +
		"      } finally {\n" +
		"        leave(\"" + name + "\")\n" +
		"      }\n" +
		"    }\n" +
		"  }\n" +
		"  return 0\n" +
		"}\n"
}

// VerifC12Mutex: T threads (symbolic pairwise distinct thread ids, symbolic exit kinds, symbolic block names)
// under all schedules with <= P pre-emptions: same-name blocks never overlap, nesting does not block,
// different names can overlap, every exit releases (a later entrant gets in), no update is lost.
func VerifC12Mutex() {
	InbuildFuncMap["enter"] = &c12Enter{}
	InbuildFuncMap["leave"] = &c12Leave{}
	c12Occ["a"], c12Occ["b"], c12MaxOcc["a"], c12MaxOcc["b"], c12Overlap = 0, 0, 0, 0, false
	erp, _ := zzProvider()
	vs := zzScope()
	vs.SetValue("cnta", 0.0)
	vs.SetValue("cntb", 0.0)
	_, err := zzRun(erp, c12Body("a")+c12Body("b"), vs)
	zz.Assert(err == nil, "C12.setup")
	nt := zz.Param("T", 2)
	tids := make([]uint64, nt)
	names := make([]int, nt)
	exits := make([]int, nt)
	asts := make([]*parser.ASTNode, nt)
	scopes := make([]parser.Scope, nt)
	lbl := []string{"0", "1", "2"}
	for t := 0; t < nt; t++ {
		tids[t] = uint64(zz.Choice("tid"+lbl[t], zz.Param("TIDS", 4)))
		for u := 0; u < t; u++ {
			zz.Assume(tids[t] != tids[u])
		}
		names[t] = zz.Choice("name"+lbl[t], zz.Param("NAMES", 2))
		k := zz.Choice("exit"+lbl[t], zz.Param("EXITS", 5))
		exits[t] = k
		scopes[t] = vs.NewChild("thread" + lbl[t])
		scopes[t].SetLocalValue("k", float64(k))
		// each thread enters its block twice: first with the symbolic exit kind, then falling through
		src := "wa(k)\nwa(0)"
		if names[t] == 1 {
			src = "wb(k)\nwb(0)"
		}
		if zz.Param("TWICE", 1) == 0 {
			src = src[:5] // one block per thread
		}
		a, err := parser.ParseWithRuntime("t", src, erp)
		zz.Assert(err == nil && a.Runtime.Validate() == nil, "C12.setup-thread")
		asts[t] = a
	}
	zz.Schedule(zz.Param("P", 2))
	var wg sync.WaitGroup
	wg.Add(nt)
	for t := 0; t < nt; t++ {
		t := t
		go func() {
			asts[t].Runtime.Eval(scopes[t], make(map[string]interface{}), tids[t])
			wg.Done()
		}()
	}
	wg.Wait()
	zz.Reach("all-done")
	zz.Assert(c12MaxOcc["a"] <= 1 && c12MaxOcc["b"] <= 1, "C12.mutual-exclusion")
	na := 0
	for t := 0; t < nt; t++ {
		if names[t] == 0 {
			na++ // first block
			if exits[t] != 1 && zz.Param("TWICE", 1) == 1 {
				na++ // second block (not reached when the first call raised an error)
			}
		}
	}
	cnt, _, _ := vs.GetValue("cnta")
	zz.Assert(cnt == float64(na), "C12.no-lost-update")
	if c12Overlap {
		zz.Reach("different-names-overlap")
	}
	// every exit released its mutex: a later entrant with a fresh thread id gets in (otherwise: deadlock)
	_, err = zzRunTid(erp, "mutex a {\n cnta := cnta + 1\n}\nmutex b {\n cntb := cntb + 1\n}", vs, 9)
	zz.Assert(err == nil, "C12.later-entrant-gets-in")
	zz.Reach("later-entrant-done")
}

var c12Gates [3]sync.Mutex

// hold(name, i): the calling thread is inside a block of that name and stays there until gate i is opened
type c12Hold struct{ *inbuildBaseFunc }

func (f *c12Hold) Run(instanceID string, vs parser.Scope, is map[string]interface{}, tid uint64, args []interface{}) (interface{}, error) {
	name := args[0].(string)
	i := int(args[1].(float64))
	c12Occ[name]++
	if c12Occ[name] > c12MaxOcc[name] {
		c12MaxOcc[name] = c12Occ[name]
	}
	c12Gates[i].Lock()
	c12Gates[i].Unlock()
	c12Occ[name]--
	return nil, nil
}
func (f *c12Hold) DocString() (string, error) { return "", nil }

// VerifC12Handover: exclusion across hand-overs, forced with gates instead of explored pre-emptions: A is inside a block,
// B waits for it, A leaves (exit kind symbolic) and B gets in, then a third entrant arrives (a new thread or A's thread
// id again) while B is still inside: it has to wait.  Afterwards everybody finishes and a later entrant gets in.
func VerifC12Handover() {
	InbuildFuncMap["hold"] = &c12Hold{}
	c12Occ["a"], c12MaxOcc["a"] = 0, 0
	erp, _ := zzProvider()
	vs := zzScope()
	body := "func h(t, k) {\n  for i in [1] {\n    mutex a {\n      hold(\"a\", t)\n" +
		"      if k == 1 {\n        raise(\"E\")\n      } elif k == 2 {\n        return 1\n      } elif k == 3 {\n        break\n      } elif k == 4 {\n        continue\n      }\n" +
		"    }\n  }\n  return 0\n}\n"
	_, err := zzRun(erp, body, vs)
	zz.Assert(err == nil, "C12.setup")
	k := zz.Choice("exitA", 5)
	sameTid := zz.Bool("thirdEntrantIsThreadAAgain")
	tids := []uint64{1, 2, 3}
	if sameTid {
		tids[2] = 1
	}
	var wg sync.WaitGroup
	start := func(t int, kind int) {
		ast, err := parser.ParseWithRuntime("t", "h("+[]string{"0", "1", "2"}[t]+", "+[]string{"0", "1", "2", "3", "4"}[kind]+")", erp)
		zz.Assert(err == nil && ast.Runtime.Validate() == nil, "C12.setup-thread")
		wg.Add(1)
		go func() {
			ast.Runtime.Eval(vs.NewChild("thread"+[]string{"0", "1", "2"}[t]), make(map[string]interface{}), tids[t])
			wg.Done()
		}()
	}
	for i := range c12Gates {
		c12Gates[i].Lock()
	}
	start(0, k)
	zz.Quiesce() // A is inside
	zz.Assert(c12Occ["a"] == 1, "C12.first-entrant-gets-in")
	start(1, 0)
	zz.Quiesce() // B waits
	zz.Assert(c12Occ["a"] == 1 && c12MaxOcc["a"] == 1, "C12.mutual-exclusion")
	c12Gates[0].Unlock()
	zz.Quiesce() // A has left, B is inside
	zz.Assert(c12Occ["a"] == 1, "C12.waiter-gets-in-after-release")
	start(2, 0)
	zz.Quiesce() // the third entrant has to wait for B
	zz.Reach("third-entrant-arrived")
	zz.Assert(c12MaxOcc["a"] <= 1, "C12.mutual-exclusion")
	c12Gates[1].Unlock()
	c12Gates[2].Unlock()
	wg.Wait()
	zz.Assert(c12MaxOcc["a"] <= 1 && c12Occ["a"] == 0, "C12.mutual-exclusion")
	_, err = zzRunTid(erp, "mutex a {\n r := 1\n}", vs, 9)
	zz.Assert(err == nil, "C12.later-entrant-gets-in")
	zz.Reach("later-entrant-done")
}

// VerifC12SinkThreads: the threads that contend are sink invocations on pool workers (two workers, two events of one
// kind added one after the other): the first invocation is held inside its block by a gate, the second one has to wait
// (it is another thread, not a re-entrant entry); after the gate opens both complete, the counter updated only inside
// the block has lost nothing and a later entrant gets in.
func VerifC12SinkThreads() {
	InbuildFuncMap["hold"] = &c12Hold{}
	c12Occ["a"], c12MaxOcc["a"] = 0, 0
	erp, _ := zzProvider()
	erp.Processor = engine.NewProcessor(2)
	vs := zzScope()
	vs.SetValue("cnt", 0.0)
	src := "sink s\n  kindmatch [ \"job\" ],\n  {\n    mutex a {\n      c := cnt\n      hold(\"a\", event.state.gate)\n      cnt := c + 1\n    }\n  }\n"
	_, err := zzRun(erp, src, vs)
	zz.Assert(err == nil, "C12.setup")
	for i := range c12Gates {
		c12Gates[i].Lock()
	}
	proc := erp.Processor
	proc.Start()
	m1 := proc.NewRootMonitor(nil, nil)
	proc.AddEvent(engine.NewEvent("e1", []string{"job"}, map[interface{}]interface{}{"gate": 0.0}), m1)
	zz.Quiesce() // the first invocation is inside the block, at its gate
	zz.Assert(c12Occ["a"] == 1, "C12.first-entrant-gets-in")
	m2 := proc.NewRootMonitor(nil, nil)
	proc.AddEvent(engine.NewEvent("e2", []string{"job"}, map[interface{}]interface{}{"gate": 1.0}), m2)
	zz.Quiesce() // the second invocation (another worker) has to wait
	zz.Reach("second-invocation-arrived")
	zz.Assert(c12MaxOcc["a"] <= 1, "C12.mutual-exclusion")
	c12Gates[0].Unlock()
	c12Gates[1].Unlock()
	zz.Quiesce()
	zz.Assert(m1.IsFinished() && m2.IsFinished(), "C12.later-entrant-gets-in")
	zz.Assert(c12MaxOcc["a"] <= 1 && c12Occ["a"] == 0, "C12.mutual-exclusion")
	cnt, _, _ := vs.GetValue("cnt")
	zz.Assert(cnt == 2.0, "C12.no-lost-update")
	zz.Reach("all-done")
}
