package interpreter

import (
	"github.com/krotik/ecal/engine"
	"github.com/krotik/ecal/parser"
	zz "github.com/krotik/ecal/zzverif"
)

var c01Fired []string

type c01Mark struct{ *inbuildBaseFunc }

func (f *c01Mark) Run(instanceID string, vs parser.Scope, is map[string]interface{}, tid uint64, args []interface{}) (interface{}, error) {
	c01Fired = append(c01Fired, args[0].(string))
	return nil, nil
}
func (f *c01Mark) DocString() (string, error) { return "", nil }

var c01Patterns = [][]string{{"a", "b"}, {"a", "*"}, {"*", "b"}, {"c"}, {"*"}, {"a", "b", "*"}}
var c01PatternSrc = []string{"a.b", "a.*", "*.b", "c", "*", "a.b.*"}
var c01Kinds = [][]string{{"a", "b"}, {"a", "c"}, {"c"}, {"a"}, {"a", "b", "c"}, {"b", "b"}}

func c01SinkKindMatches(pat, kind []string) bool {
	if len(pat) != len(kind) {
		return false
	}
	for i := range pat {
		if pat[i] != "*" && pat[i] != kind[i] {
			return false
		}
	}
	return true
}

// VerifC01Sinks: sinks written in ECAL (kind pattern, optional state pattern, optional suppression of the other sink)
// on a running processor; an event of symbolic kind and state fires exactly the sinks the reference selects, once.
func VerifC01Sinks() {
	InbuildFuncMap["mark"] = &c01Mark{}
	c01Fired = nil
	erp, _ := zzProvider()
	erp.Processor = engine.NewProcessor(1)
	vs := zzScope()
	names := []string{"s0", "s1"}
	pats := make([]int, 2)
	stateKind := make([]int, 2) // 0 none, 1 null (any value), 2 number, 3 string "x"
	var stateNum [2]float64
	suppress := make([]bool, 2)
	src := ""
	for i := 0; i < 2; i++ {
		pats[i] = zz.Choice("pattern"+names[i], zz.Param("NP", len(c01Patterns)))
		stateKind[i] = zz.Choice("state"+names[i], 4)
		suppress[i] = zz.Bool("suppresses" + names[i])
		src += "sink " + names[i] + "\n  kindmatch [ \"" + c01PatternSrc[pats[i]] + "\" ],\n"
		switch stateKind[i] {
		case 1:
			src += "  statematch { \"k\" : null },\n"
		case 2:
			stateNum[i] = zz.Float64("statenum" + names[i])
			vs.SetValue("n"+names[i], stateNum[i])
			src += "  statematch { \"k\" : n" + names[i] + " },\n"
		case 3:
			src += "  statematch { \"k\" : \"x\" },\n"
		}
		if suppress[i] {
			src += "  suppresses [ \"" + names[1-i] + "\" ],\n"
		}
		src += "  {\n    mark(\"" + names[i] + "\")\n  }\n"
	}
	_, err := zzRun(erp, src, vs)
	zz.Assert(err == nil, "C01.sinks-declared")
	if err != nil {
		return
	}
	ki := zz.Choice("eventKind", zz.Param("NK", len(c01Kinds)))
	state := map[interface{}]interface{}{}
	var evNum float64
	evState := zz.Choice("eventState", 4) // 0 no key, 1 null, 2 number, 3 string "x"
	switch evState {
	case 1:
		state["k"] = nil
	case 2:
		evNum = zz.Float64("eventnum")
		state["k"] = evNum
	case 3:
		state["k"] = "x"
	}
	erp.Processor.Start()
	zz.Reach("declared")
	erp.Processor.AddEventAndWait(engine.NewEvent("e", c01Kinds[ki], state), nil)
	zz.Reach("processed")
	// ---- reference ----
	matches := make([]bool, 2)
	for i := 0; i < 2; i++ {
		m := c01SinkKindMatches(c01Patterns[pats[i]], c01Kinds[ki])
		switch stateKind[i] {
		case 1:
			m = m && evState != 0
		case 2:
			m = m && evState == 2 && evNum == stateNum[i]
		case 3:
			m = m && evState == 3
		}
		matches[i] = m
	}
	for i := 0; i < 2; i++ {
		want := 0
		if matches[i] && !(matches[1-i] && suppress[1-i]) {
			want = 1
		}
		got := 0
		for _, f := range c01Fired {
			if f == names[i] {
				got++
			}
		}
		zz.Assert(got == want, "C01.sink-fired-exactly-when-matching-and-unsuppressed")
	}
}
