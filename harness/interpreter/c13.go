package interpreter

import (
	"sync"

	"github.com/krotik/ecal/parser"
	zz "github.com/krotik/ecal/zzverif"
)

var c13Progs = []string{
	"if a { b }",
	"x := {1:2}",
	"a := 1 + 2",
	"for i in [1] { if a { b } }",
	"y := [{3:4}]",
	"func f() { return {5:6} }",
}

// guard constructs (if / for) and map literals in the program set (signature of the listed finding)
var c13HasGuard = []bool{true, false, false, true, false, false}
var c13HasBrace = []bool{true, true, false, true, true, true}

func c13Parse(src string, rp parser.RuntimeProvider) string {
	ast, err := parser.ParseWithRuntime("t", src, rp)
	if err != nil {
		return "error: " + err.Error()
	}
	return ast.String()
}

// VerifC13Reentrant: two concurrent parses (programs chosen symbolically, runtime provider attached or not)
// return what each returns alone; no unsynchronised access to package-level state of parser/interpreter.
func VerifC13Reentrant() {
	var rp parser.RuntimeProvider
	if zz.Param("RT", 0) == 1 {
		erp, _ := zzProvider()
		rp = erp
	}
	pa := zz.Choice("progA", len(c13Progs))
	pb := zz.Choice("progB", len(c13Progs))
	if f := zz.Param("PROGA", -1); f >= 0 {
		zz.Assume(pa == f)
	}
	if f := zz.Param("PROGB", -1); f >= 0 {
		zz.Assume(pb == f)
	}
	// the undisturbed results are computed before the concurrent phase or - the very first parses of a process overlap,
	// nothing has been lexed or parsed yet - after it
	warm := zz.Bool("sequentialParsesFirst")
	var seqA, seqB string
	if warm {
		seqA = c13Parse(c13Progs[pa], rp)
		seqB = c13Parse(c13Progs[pb], rp)
	}
	// while one parse is inside an if/for guard the shared grammar table maps '{' to "statements": any other
	// parse that meets a '{' meanwhile is affected
	swap := (c13HasGuard[pa] && c13HasBrace[pb]) || (c13HasGuard[pb] && c13HasBrace[pa])
	zz.Known("C13-grammar-table-swapped-during-guard-parsing", "C13.same-as-sequential", swap)
	zz.Known("C13-grammar-table-swapped-during-guard-parsing-race", "parser.astNodeMap", c13HasGuard[pa] || c13HasGuard[pb])
	zz.ReportRaces()
	zz.ScheduleEraser(zz.Param("P", 1))
	var wg sync.WaitGroup
	wg.Add(2)
	var ra, rb string
	go func() { ra = c13Parse(c13Progs[pa], rp); wg.Done() }()
	go func() { rb = c13Parse(c13Progs[pb], rp); wg.Done() }()
	wg.Wait()
	zz.Reach("both-done")
	if !warm {
		seqA = c13Parse(c13Progs[pa], rp)
		seqB = c13Parse(c13Progs[pb], rp)
	}
	zz.Assert(ra == seqA && rb == seqB, "C13.same-as-sequential")
}
