package interpreter

import (
	"errors"
	"math"
	"reflect"

	"github.com/krotik/ecal/stdlib"
	"github.com/krotik/ecal/util"
	zz "github.com/krotik/ecal/zzverif"
)

var c19Calls int
var c19Fail bool

func c19Mix(a int16, s string, f float32) (float64, string, error) {
	c19Calls++
	if c19Fail {
		return 0, "", errors.New("go error")
	}
	return float64(a) + float64(f), s + "!", nil
}
func c19Boom(a float64) float64 {
	c19Calls++
	var l []int
	return float64(l[int(a)&3]) // index out of range on an empty slice
}

// generated stdlib entries with an exact SMT counterpart in the engine
var c19Math = []string{"math.floor", "math.ceil", "math.trunc", "math.abs", "math.sqrt", "math.isNaN", "math.isInf", "math.inf", "zz.mix", "zz.boom", "math.Pi", "math.nosuchfunction"}

var c19Registered bool

// VerifC19Ecal: bridged Go functions called from ECAL source through the real interpreter (identifier resolution,
// argument evaluation, executeFunction's wrapping of plain Go errors, try/except): generated stdlib entries and two
// functions added with AddStdlibFunc, argument vectors of length 0..MAXARGS over the ECAL value universe.
//
//	total           evaluation returns a value or an error, never panics (also for a Go function that panics)
//	errors          every error that comes back is an ECAL runtime error (catchable: inside try the statement completes)
//	results         math.floor/ceil/trunc/abs/sqrt(x) with one number return the IEEE result as a number, isNaN/isInf a bool,
//	                zz.mix(number, string, number) returns [number, string] or the Go error
//	wrong vectors   wrong count or kinds: an error
func VerifC19Ecal() {
	if !c19Registered {
		// package-level registration (the stdlib tables are process-wide)
		stdlib.AddStdlibPkg("zz", "test functions")
		stdlib.AddStdlibFunc("zz", "mix", stdlib.NewECALFunctionAdapter(reflect.ValueOf(c19Mix), ""))
		stdlib.AddStdlibFunc("zz", "boom", stdlib.NewECALFunctionAdapter(reflect.ValueOf(c19Boom), ""))
		c19Registered = true
	}
	erp, _ := zzProvider()
	f := zz.Choice("f", len(c19Math))
	if only := zz.Param("ONLY", -1); only >= 0 {
		zz.Assume(f == only)
	}
	maxArgs := zz.Param("MAXARGS", 2)
	argc := zz.Choice("argc", maxArgs+1)
	c19Fail = zz.Bool("fail")
	c19Calls = 0
	vs := zzScope()
	kinds := make([]int, 0, 4)
	vals := make([]interface{}, 0, 4)
	src := c19Math[f]
	if f != 10 { // math.Pi is a constant: read without a call
		src += "("
		for i := 0; i < argc; i++ {
			k := zz.Choice("k"+c06ArgNames[i], zzKinds)
			v := zzValue(c06ArgNames[i], k)
			kinds = append(kinds, k)
			vals = append(vals, v)
			vs.SetValue(c06ArgNames[i], v)
			if i > 0 {
				src += ", "
			}
			src += c06ArgNames[i]
		}
		src += ")"
	}
	inTry := zz.Bool("inTry")
	zz.Reach("before-eval")
	if inTry {
		vs.SetValue("r", "unset")
		vs.SetValue("caught", false)
		_, err := zzRun(erp, "try {\n r := "+src+"\n} except e {\n caught := true\n}", vs)
		zz.Reach("after-eval")
		zz.Assert(err == nil, "C19.bridge-error-is-catchable-in-try")
		return
	}
	res, err := zzRun(erp, src, vs)
	zz.Reach("after-eval")
	if err != nil {
		_, ok1 := err.(*util.RuntimeError)
		_, ok2 := err.(*util.RuntimeErrorWithDetail)
		zz.Assert(ok1 || ok2, "C19.bridge-error-is-an-ecal-runtime-error")
	}
	zz.Assert(c19Calls <= 1, "C19.function-ran-at-most-once")
	allNum := true
	for _, k := range kinds {
		allNum = allNum && k == zzKNum
	}
	switch {
	case f <= 4: // float64 -> float64
		if argc == 1 && allNum {
			zz.Reach("fitting-vector")
			x := vals[0].(float64)
			zz.Assert(err == nil, "C19.no-error-on-a-fitting-argument-vector")
			r, ok := res.(float64)
			zz.Assert(ok, "C19.float-result-delivered-as-number")
			if ok {
				want := []float64{math.Floor(x), math.Ceil(x), math.Trunc(x), math.Abs(x), math.Sqrt(x)}[f]
				zz.Assert(zz.SameFloat(r, want), "C19.result-value")
			}
		} else {
			zz.Assert(err != nil, "C19.wrong-argument-vector-yields-an-error")
		}
	case f == 5: // isNaN(float64) bool
		if argc == 1 && allNum {
			x := vals[0].(float64)
			r, ok := res.(bool)
			zz.Assert(err == nil && ok && r == (x != x), "C19.bool-result")
		} else {
			zz.Assert(err != nil, "C19.wrong-argument-vector-yields-an-error")
		}
	case f == 6: // isInf(float64, int) bool
		if argc == 2 && allNum {
			x, s := vals[0].(float64), vals[1].(float64)
			r, ok := res.(bool)
			zz.Assert(err == nil && ok, "C19.bool-result")
			if t := math.Trunc(s); t > -1000 && t < 1000 && err == nil && ok {
				zz.Assert(r == math.IsInf(x, int(t)), "C19.integer-argument-arrives-as-the-truncated-number")
			}
		} else {
			zz.Assert(err != nil, "C19.wrong-argument-vector-yields-an-error")
		}
	case f == 7: // inf(int) float64
		if argc == 1 && allNum {
			s := vals[0].(float64)
			r, ok := res.(float64)
			zz.Assert(err == nil && ok, "C19.float-result-delivered-as-number")
			if t := math.Trunc(s); t > -1000 && t < 1000 && err == nil && ok {
				zz.Assert(zz.SameFloat(r, math.Inf(int(t))), "C19.integer-argument-arrives-as-the-truncated-number")
			}
		} else {
			zz.Assert(err != nil, "C19.wrong-argument-vector-yields-an-error")
		}
	case f == 8: // zz.mix(int16, string, float32) (float64, string, error)
		if argc == 3 && kinds[0] == zzKNum && kinds[1] == zzKStr && kinds[2] == zzKNum {
			zz.Reach("fitting-mix")
			zz.Assert(c19Calls == 1, "C19.function-ran-once-on-a-fitting-argument-vector")
			zz.Assert((err != nil) == c19Fail, "C19.trailing-go-error-delivered-as-the-error")
			if err == nil {
				l, ok := res.([]interface{})
				zz.Assert(ok && len(l) == 2, "C19.several-results-delivered-as-a-list")
				if ok && len(l) == 2 {
					r0, ok0 := l[0].(float64)
					r1, ok1 := l[1].(string)
					zz.Assert(ok0 && ok1 && r1 == vals[1].(string)+"!", "C19.results-delivered-with-their-kinds")
					a := vals[0].(float64)
					if t := math.Trunc(a); t >= -32768 && t < 32768 && ok0 {
						zz.Assert(zz.SameFloat(r0, t+0+float64(float32(vals[2].(float64)))), "C19.result-value")
					}
				}
			}
		} else {
			zz.Assert(err != nil && c19Calls == 0, "C19.wrong-argument-vector-yields-an-error")
		}
	case f == 9: // zz.boom panics at run time
		zz.Assert(err != nil, "C19.panicking-function-yields-an-error")
	case f == 10:
		r, ok := res.(float64)
		zz.Assert(err == nil && ok && r == math.Pi, "C19.stdlib-constant")
	case f == 11:
		zz.Assert(err != nil, "C19.unknown-stdlib-function-is-an-error")
	}
}
