package interpreter

import (
	"math"
	"regexp"
	"strings"

	"github.com/krotik/ecal/parser"
	"github.com/krotik/ecal/util"
	zz "github.com/krotik/ecal/zzverif"
)

// ---- reference evaluator written from the language reference (ecal.md), independent of the runtime classes ----

const (
	c03Num = iota
	c03Bool
	c03Str
	c03List
	c03Null
)

type c03V struct {
	k     int
	n     float64
	b     bool
	s     string
	l     []float64
	err   error  // error class (util.Err...)
	named string // variable name of the offending operand ("" if it is not a variable)
	undef bool   // the reference does not define this case: nothing is asserted
}

var c03Ops = []string{"+", "-", "*", "/", "//", "%", "==", "!=", ">", ">=", "<", "<=", "and", "or", "like", "hasprefix", "hassuffix", "in", "notin"}

// precedence classes: multiplicative > additive > comparison/membership > and > or
var c03Prec = []int{3, 3, 4, 4, 4, 4, 2, 2, 2, 2, 2, 2, 1, 0, 2, 2, 2, 2, 2}

type c03Operand struct {
	v    c03V
	name string
}

func c03TypeErr(cls error, o c03Operand) c03V { return c03V{err: cls, named: o.name} }

func c03Apply(op int, a, b c03Operand) c03V {
	if a.v.undef || b.v.undef {
		return c03V{undef: true}
	}
	// operands are evaluated left to right; the first error wins
	if a.v.err != nil {
		return a.v
	}
	if b.v.err != nil {
		return b.v
	}
	x, y := a.v, b.v
	switch c03Ops[op] {
	case "+", "-", "*", "/", "//", "%":
		if x.k != c03Num {
			return c03TypeErr(util.ErrNotANumber, a)
		}
		if y.k != c03Num {
			return c03TypeErr(util.ErrNotANumber, b)
		}
		switch c03Ops[op] {
		case "+":
			return c03V{k: c03Num, n: x.n + y.n}
		case "-":
			return c03V{k: c03Num, n: x.n - y.n}
		case "*":
			return c03V{k: c03Num, n: x.n * y.n}
		case "/":
			return c03V{k: c03Num, n: x.n / y.n}
		case "//":
			return c03V{k: c03Num, n: math.Floor(x.n / y.n)}
		}
		if int64(y.n) == 0 {
			return c03V{err: util.ErrRuntimeError}
		}
		return c03V{k: c03Num, n: float64(int64(x.n) % int64(y.n))}
	case ">", ">=", "<", "<=":
		if x.k == c03Num && y.k == c03Num {
			switch c03Ops[op] {
			case ">":
				return c03V{k: c03Bool, b: x.n > y.n}
			case ">=":
				return c03V{k: c03Bool, b: x.n >= y.n}
			case "<":
				return c03V{k: c03Bool, b: x.n < y.n}
			}
			return c03V{k: c03Bool, b: x.n <= y.n}
		}
		if x.k == c03Str && y.k == c03Str {
			switch c03Ops[op] {
			case ">":
				return c03V{k: c03Bool, b: x.s > y.s}
			case ">=":
				return c03V{k: c03Bool, b: x.s >= y.s}
			case "<":
				return c03V{k: c03Bool, b: x.s < y.s}
			}
			return c03V{k: c03Bool, b: x.s <= y.s}
		}
		return c03V{undef: true}
	case "==", "!=":
		eq := false
		switch {
		case x.k != y.k:
		case x.k == c03Num:
			eq = x.n == y.n
		case x.k == c03Bool:
			eq = x.b == y.b
		case x.k == c03Str:
			eq = x.s == y.s
		case x.k == c03Null:
			eq = true
		default:
			return c03V{undef: true}
		}
		if c03Ops[op] == "!=" {
			eq = !eq
		}
		return c03V{k: c03Bool, b: eq}
	case "and", "or":
		if x.k != c03Bool {
			return c03TypeErr(util.ErrNotABoolean, a)
		}
		if y.k != c03Bool {
			return c03TypeErr(util.ErrNotABoolean, b)
		}
		if c03Ops[op] == "and" {
			return c03V{k: c03Bool, b: x.b && y.b}
		}
		return c03V{k: c03Bool, b: x.b || y.b}
	case "like", "hasprefix", "hassuffix":
		if x.k != c03Str || y.k != c03Str {
			return c03V{undef: true}
		}
		switch c03Ops[op] {
		case "hasprefix":
			return c03V{k: c03Bool, b: strings.HasPrefix(x.s, y.s)}
		case "hassuffix":
			return c03V{k: c03Bool, b: strings.HasSuffix(x.s, y.s)}
		}
		m, err := regexp.MatchString(y.s, x.s)
		if err != nil {
			return c03V{undef: true}
		}
		return c03V{k: c03Bool, b: m}
	case "in", "notin":
		if y.k != c03List {
			return c03TypeErr(util.ErrNotAList, b)
		}
		found := false
		if x.k == c03Num {
			for _, e := range y.l {
				if e == x.n {
					found = true
				}
			}
		}
		if c03Ops[op] == "notin" {
			found = !found
		}
		return c03V{k: c03Bool, b: found}
	}
	return c03V{undef: true}
}

var c03PreOps = []string{"-", "+", "not "}

func c03Prefix(op int, a c03Operand) c03V {
	if a.v.undef || a.v.err != nil {
		return a.v
	}
	switch op {
	case 0, 1:
		if a.v.k != c03Num {
			return c03TypeErr(util.ErrNotANumber, a)
		}
		if op == 0 {
			return c03V{k: c03Num, n: -a.v.n}
		}
		return c03V{k: c03Num, n: a.v.n}
	}
	if a.v.k != c03Bool {
		return c03TypeErr(util.ErrNotABoolean, a)
	}
	return c03V{k: c03Bool, b: !a.v.b}
}

// c03Var: a variable with a value of symbolic kind and symbolic content; returns reference value and ECAL value.
func c03Var(name string, kinds int) (c03Operand, interface{}) {
	switch zz.Choice(name+"_kind", kinds) {
	case c03Num:
		f := zz.Float64(name + "_f")
		if zz.Param("SMALLNUM", 0) == 1 {
			// small operand domain k/2, k a signed 6-bit integer (zero, negatives, halves): lets the solver
			// refute a deviating arithmetic result in seconds where the full-width query times out
			k := zz.Int(name + "_k")
			zz.Assume(k >= -32)
			zz.Assume(k < 32)
			f = float64(k) / 2
		}
		return c03Operand{c03V{k: c03Num, n: f}, name}, f
	case c03Bool:
		b := zz.Bool(name + "_b")
		return c03Operand{c03V{k: c03Bool, b: b}, name}, b
	case c03Str:
		bs := zz.Bytes(name+"_s", 1)
		zz.Assume(zz.OneOf(bs[0], "ab."))
		return c03Operand{c03V{k: c03Str, s: string(bs)}, name}, string(bs)
	case c03List:
		e0, e1 := zz.Float64(name+"_l0"), zz.Float64(name+"_l1")
		return c03Operand{c03V{k: c03List, l: []float64{e0, e1}}, name}, []interface{}{e0, e1}
	}
	return c03Operand{c03V{k: c03Null}, name}, nil
}

// c03Compare asserts that the interpreter's outcome equals the reference outcome.
func c03Compare(ref c03V, res interface{}, err error) {
	if ref.undef {
		return
	}
	zz.Reach("compared")
	if ref.err != nil {
		zz.Assert(err != nil, "C03.wrong-kind-operand-yields-error-not-value")
		if err == nil {
			return
		}
		re, ok := err.(*util.RuntimeError)
		zz.Assert(ok && re.Type == ref.err, "C03.error-class")
		if ok && ref.named != "" {
			zz.Assert(strings.HasPrefix(re.Detail, ref.named+"="), "C03.error-names-the-operand")
		}
		return
	}
	zz.Assert(err == nil, "C03.defined-expression-yields-value")
	if err != nil {
		return
	}
	switch ref.k {
	case c03Num:
		got, ok := res.(float64)
		zz.Assert(ok, "C03.number-result")
		if ok {
			zz.Assert(zz.SameFloat(got, ref.n), "C03.value")
		}
	case c03Bool:
		got, ok := res.(bool)
		zz.Assert(ok, "C03.boolean-result")
		if ok {
			zz.Assert(got == ref.b, "C03.value")
		}
	}
}

// VerifC03Pairs: x OP1 y OP2 z, optionally with explicit parentheses on either pair and with a line break after an
// operator; the reference groups by the documented precedence table (left associative).
func VerifC03Pairs() {
	erp, _ := zzProvider()
	kinds := zz.Param("KINDS", 3)
	o1 := zz.Choice("op1", len(c03Ops))
	o2 := zz.Choice("op2", len(c03Ops))
	if g := zz.Param("GROUP", -1); g >= 0 {
		// restrict to one operator group to bound the run: 0 arithmetic, 1 comparison, 2 boolean, 3 string/list
		zz.Assume(c03Group(o1) == g || c03Group(o2) == g)
	}
	x, xv := c03Var("x", kinds)
	y, yv := c03Var("y", kinds)
	z, zv := c03Var("z", kinds)
	vs := zzScope()
	vs.SetValue("x", xv)
	vs.SetValue("y", yv)
	vs.SetValue("z", zv)
	sep := " "
	if zz.Bool("linebreak") {
		sep = "\n" // a line break after an operator keeps one statement
	}
	var src string
	var ref c03V
	switch zz.Choice("paren", 3) {
	case 0:
		src = "x " + c03Ops[o1] + sep + "y " + c03Ops[o2] + sep + "z"
		if c03Prec[o1] >= c03Prec[o2] {
			ref = c03Apply(o2, c03Operand{v: c03Apply(o1, x, y)}, z)
		} else {
			ref = c03Apply(o1, x, c03Operand{v: c03Apply(o2, y, z)})
		}
	case 1:
		src = "(x " + c03Ops[o1] + sep + "y) " + c03Ops[o2] + sep + "z"
		ref = c03Apply(o2, c03Operand{v: c03Apply(o1, x, y)}, z)
	case 2:
		src = "x " + c03Ops[o1] + sep + "(y " + c03Ops[o2] + sep + "z)"
		ref = c03Apply(o1, x, c03Operand{v: c03Apply(o2, y, z)})
	}
	res, err := zzRun(erp, src, vs)
	zz.Reach("evaluated")
	c03Compare(ref, res, err)
}

func c03Group(op int) int {
	switch {
	case op <= 5:
		return 0
	case op <= 11:
		return 1
	case op <= 13:
		return 2
	}
	return 3
}

// VerifC03Prefix: PRE x OP y and x OP PRE y: prefix minus/plus bind tightest, not applies to the following comparison.
func VerifC03Prefix() {
	erp, _ := zzProvider()
	kinds := zz.Param("KINDS", 3)
	pr := zz.Choice("pre", len(c03PreOps))
	o := zz.Choice("op", len(c03Ops))
	x, xv := c03Var("x", kinds)
	y, yv := c03Var("y", kinds)
	vs := zzScope()
	vs.SetValue("x", xv)
	vs.SetValue("y", yv)
	var src string
	var ref c03V
	if zz.Bool("right") {
		src = "x " + c03Ops[o] + " " + c03PreOps[pr] + "y"
		ref = c03Apply(o, x, c03Operand{v: c03Prefix(pr, y)})
	} else {
		src = c03PreOps[pr] + "x " + c03Ops[o] + " y"
		if pr == 2 && c03Prec[o] >= 2 {
			// not applies to the following comparison (and to anything binding tighter)
			ref = c03Prefix(pr, c03Operand{v: c03Apply(o, x, y)})
		} else {
			ref = c03Apply(o, c03Operand{v: c03Prefix(pr, x)}, y)
		}
	}
	res, err := zzRun(erp, src, vs)
	zz.Reach("evaluated")
	c03Compare(ref, res, err)
}

// VerifC03Reeval: the value of an expression is a function of the CURRENT values of its operands: one tree (x OP y,
// optionally with a prefix operator) is parsed once and evaluated twice, the second time after both variables got new
// values of symbolic kind and content (as happens in loop and function bodies); both outcomes equal the reference.
func VerifC03Reeval() {
	erp, _ := zzProvider()
	kinds := zz.Param("KINDS", 3)
	o := zz.Choice("op", len(c03Ops))
	if g := zz.Param("GROUP", -1); g >= 0 {
		zz.Assume(c03Group(o) == g)
	}
	src := "x " + c03Ops[o] + " y"
	pre := zz.Choice("pre", len(c03PreOps)+1)
	if pre > 0 {
		src = "x " + c03Ops[o] + " " + c03PreOps[pre-1] + "y"
	}
	ast, err := parser.ParseWithRuntime("t", src, erp)
	zz.Assert(err == nil && ast.Runtime.Validate() == nil, "C03.setup")
	if err != nil {
		return
	}
	vs := zzScope()
	for round, sfx := range []string{"a", "b"} {
		x, xv := c03Var("x"+sfx, kinds)
		y, yv := c03Var("y"+sfx, kinds)
		x.name, y.name = "x", "y"
		vs.SetValue("x", xv)
		vs.SetValue("y", yv)
		yo := y
		if pre > 0 {
			yo = c03Operand{v: c03Prefix(pre-1, y)}
		}
		ref := c03Apply(o, x, yo)
		res, err := ast.Runtime.Eval(vs, make(map[string]interface{}), 1)
		if round == 1 {
			zz.Reach("evaluated")
		}
		c03Compare(ref, res, err)
	}
}
