package interpreter

import (
	"time"

	"github.com/krotik/ecal/parser"
	"github.com/krotik/ecal/scope"
	"github.com/krotik/ecal/util"
	zz "github.com/krotik/ecal/zzverif"
)

var c15Progs = []string{
	"a := 1\nb := 2\nc := a + b\n",
	"func f(x) {\n  y := x + 1\n  return y\n}\nr := f(1)\nq := r + 1\n",
	"s := 0\nfor i in [1, 2] {\n  s := s + i\n}\nt := s\n",
	"r := 0\ntry {\n  raise(\"E\")\n} except e {\n  r := 1\n} finally {\n  r := r + 1\n}\n",
}
var c15Lines = []int{3, 6, 5, 8}
var c15Conts = []util.ContType{util.Resume, util.StepIn, util.StepOver, util.StepOut}
var c15Lbl = []string{"0", "1", "2", "3", "4", "5", "6", "7", "8", "9"}

func c15Dump(vs parser.Scope) string { return vs.String() }

// VerifC15Resume: one program thread with a breakpoint, one driver that issues a continue command as soon
// as Status() reports the thread suspended; under all schedules with <= P pre-emptions at discovered racy
// sites: once the continue addressed to the suspended thread was executed the thread is not left waiting.
func VerifC15Resume() {
	erp, _ := zzProvider()
	vs := scope.NewScope(scope.GlobalScope)
	dbg := NewECALDebugger(vs)
	erp.Debugger = dbg
	pi := zz.Param("PROG", 0)
	ast, err := parser.ParseWithRuntime("t", c15Progs[pi], erp)
	zz.Assert(err == nil && ast.Runtime.Validate() == nil, "C15.setup")
	dbg.SetBreakPoint("t", zz.Param("LINE", 2))
	// the suspend/continue hand-shake is made of sync operations: every one of them is a pre-emption point
	zz.Schedule(zz.Param("P", 2))
	finished := false
	go func() {
		ast.Runtime.Eval(vs, make(map[string]interface{}), 7)
		finished = true
	}()
	continues := 0
	max := zz.Param("CONTS", 1)
	for i := 0; i < 40 && continues < max && !finished; i++ {
		st := dbg.Status().(map[string]interface{})
		threads := st["threads"].(map[string]map[string]interface{})
		if t, ok := threads["7"]; ok {
			if r, ok := t["threadRunning"]; ok && r == false {
				// the first command may be a step (the thread then suspends again on its next line through the
				// re-suspension path); every later one resumes
				cmd := util.Resume
				if continues == 0 {
					cmd = c15Conts[zz.Param("FIRSTCMD", 0)]
				}
				dbg.Continue(7, cmd)
				continues++
			}
		}
		time.Sleep(time.Millisecond)
	}
	zz.Quiesce()
	zz.Reach("quiescent")
	if continues > 0 && !finished {
		// not finished: then it must be suspended again and reported as such (never silently stuck)
		st := dbg.Status().(map[string]interface{})
		t := st["threads"].(map[string]map[string]interface{})["7"]
		zz.Assert(t != nil && t["threadRunning"] == false && continues >= max, "C15.continue-releases-suspended-thread")
	}
	if finished {
		zz.Reach("finished")
	}
}

// VerifC15Transparent: a program run under the debugger with a symbolic breakpoint set and a driver that
// answers every suspension with a symbolically chosen command ends with the same result, log and variables as
// the undebugged run.
func VerifC15Transparent() {
	pi := zz.Choice("prog", len(c15Progs))
	if f := zz.Param("PROG", -1); f >= 0 {
		zz.Assume(pi == f)
	}
	// reference run without debugger
	erp0, log0 := zzProvider()
	vs0 := scope.NewScope(scope.GlobalScope)
	res0, err0 := zzRun(erp0, c15Progs[pi], vs0)
	// debugged run
	erp, log1 := zzProvider()
	vs := scope.NewScope(scope.GlobalScope)
	dbg := NewECALDebugger(scope.NewScope(scope.GlobalScope))
	erp.Debugger = dbg
	ast, err := parser.ParseWithRuntime("t", c15Progs[pi], erp)
	zz.Assert(err == nil && ast.Runtime.Validate() == nil, "C15.setup")
	for l := 1; l <= c15Lines[pi]; l++ {
		if zz.Bool("bp" + c15Lbl[l]) {
			dbg.SetBreakPoint("t", l)
		}
	}
	finished := false
	var res1 interface{}
	var err1 error
	go func() {
		res1, err1 = ast.Runtime.Eval(vs, make(map[string]interface{}), 7)
		finished = true
	}()
	ncmd := zz.Param("CMDS", 6)
	for i := 0; i < ncmd && !finished; i++ {
		zz.Quiesce() // deterministic schedule: the program thread runs until it suspends or ends
		if finished {
			break
		}
		c := zz.Choice("cmd"+c15Lbl[i], len(c15Conts))
		dbg.Continue(7, c15Conts[c])
	}
	if !finished {
		// bounded number of commands used up: release the thread for good
		dbg.StopThreads(0)
		return
	}
	zz.Reach("finished")
	zz.Assert((err0 == nil) == (err1 == nil), "C15.same-error-outcome")
	zz.Assert(res0 == res1, "C15.same-result")
	zz.Assert(log0.String() == log1.String(), "C15.same-log")
	zz.Assert(c15Dump(vs0) == c15Dump(vs), "C15.same-final-variables")
}
