package interpreter

import (
	"encoding/json"
	"sync"
	"time"

	"github.com/krotik/common/datautil"
	"github.com/krotik/ecal/engine/pool"
	"github.com/krotik/ecal/parser"
	"github.com/krotik/ecal/scope"
	"github.com/krotik/ecal/util"
	zz "github.com/krotik/ecal/zzverif"
)

var c15Progs = []string{
	"a := 1\nb := 2\nc := a + b\n",
	"func f(x) {\n  y := x + 1\n  return y\n}\nr := f(1)\nq := r + 1\n",
	"s := 0\nfor i in [1, 2] {\n  s := s + i\n}\nt := s\n",
	"r := 0\ntry {\n  raise(\"E\")\n} except e {\n  r := 1\n} finally {\n  r := r + 1\n}\n",
}
var c15Lines = []int{3, 6, 5, 8}
var c15Conts = []util.ContType{util.Resume, util.StepIn, util.StepOver, util.StepOut}
var c15Lbl = []string{"0", "1", "2", "3", "4", "5", "6", "7", "8", "9"}

func c15Dump(vs parser.Scope) string { return vs.String() }

// VerifC15Resume: one program thread with a breakpoint, one driver that issues a continue command as soon
// as Status() reports the thread suspended; under all schedules with <= P pre-emptions at discovered racy
// sites: once the continue addressed to the suspended thread was executed the thread is not left waiting.
func VerifC15Resume() {
	erp, _ := zzProvider()
	vs := scope.NewScope(scope.GlobalScope)
	dbg := NewECALDebugger(vs)
	erp.Debugger = dbg
	pi := zz.Param("PROG", 0)
	ast, err := parser.ParseWithRuntime("t", c15Progs[pi], erp)
	zz.Assert(err == nil && ast.Runtime.Validate() == nil, "C15.setup")
	dbg.SetBreakPoint("t", zz.Param("LINE", 2))
	// the suspend/continue hand-shake is made of sync operations: every one of them is a pre-emption point
	zz.Schedule(zz.Param("P", 2))
	finished := false
	go func() {
		ast.Runtime.Eval(vs, make(map[string]interface{}), 7)
		finished = true
	}()
	continues := 0
	max := zz.Param("CONTS", 1)
	for i := 0; i < 40 && continues < max && !finished; i++ {
		st := dbg.Status().(map[string]interface{})
		threads := st["threads"].(map[string]map[string]interface{})
		if t, ok := threads["7"]; ok {
			if r, ok := t["threadRunning"]; ok && r == false {
				// the first command may be a step (the thread then suspends again on its next line through the
				// re-suspension path); every later one resumes
				cmd := util.Resume
				if continues == 0 {
					cmd = c15Conts[zz.Param("FIRSTCMD", 0)]
				}
				dbg.Continue(7, cmd)
				continues++
			}
		}
		time.Sleep(time.Millisecond)
	}
	zz.Quiesce()
	zz.Reach("quiescent")
	if continues > 0 && !finished {
		// not finished: then it must be suspended again and reported as such (never silently stuck)
		st := dbg.Status().(map[string]interface{})
		t := st["threads"].(map[string]map[string]interface{})["7"]
		zz.Assert(t != nil && t["threadRunning"] == false && continues >= max, "C15.continue-releases-suspended-thread")
	}
	if finished {
		zz.Reach("finished")
	}
}

// VerifC15Transparent: a program run under the debugger with a symbolic breakpoint set and a driver that
// answers every suspension with a symbolically chosen command ends with the same result, log and variables as
// the undebugged run.
func VerifC15Transparent() {
	pi := zz.Choice("prog", len(c15Progs))
	if f := zz.Param("PROG", -1); f >= 0 {
		zz.Assume(pi == f)
	}
	// reference run without debugger
	erp0, log0 := zzProvider()
	vs0 := scope.NewScope(scope.GlobalScope)
	res0, err0 := zzRun(erp0, c15Progs[pi], vs0)
	// debugged run
	erp, log1 := zzProvider()
	vs := scope.NewScope(scope.GlobalScope)
	dbg := NewECALDebugger(scope.NewScope(scope.GlobalScope))
	erp.Debugger = dbg
	ast, err := parser.ParseWithRuntime("t", c15Progs[pi], erp)
	zz.Assert(err == nil && ast.Runtime.Validate() == nil, "C15.setup")
	for l := 1; l <= c15Lines[pi]; l++ {
		if zz.Bool("bp" + c15Lbl[l]) {
			dbg.SetBreakPoint("t", l)
		}
	}
	finished, ended := false, false
	var res1 interface{}
	var err1 error
	go func() {
		defer func() { ended = true }() // also when the thread is stopped (runtime.Goexit)
		res1, err1 = ast.Runtime.Eval(vs, make(map[string]interface{}), 7)
		finished = true
	}()
	ncmd := zz.Param("CMDS", 6)
	for i := 0; i < ncmd && !finished; i++ {
		zz.Quiesce() // deterministic schedule: the program thread runs until it suspends or ends
		if finished {
			break
		}
		// an idle, unfinished thread is a suspended one and is reported as such (otherwise no command could release it);
		// break-on-error is on (the default): a failing call suspends the thread as well
		ed := dbg.(*ecalDebugger)
		ed.lock.RLock()
		is := ed.interrogationStates[7]
		ed.lock.RUnlock()
		zz.Assert(is != nil && !is.running, "C15.idle-unfinished-thread-is-suspended")
		c := zz.Choice("cmd"+c15Lbl[i], len(c15Conts))
		dbg.Continue(7, c15Conts[c])
	}
	if !finished {
		// bounded number of commands used up: stopping all threads releases every suspended one
		zz.Quiesce()
		dbg.StopThreads(0)
		zz.Quiesce()
		zz.Assert(ended, "C15.stopping-all-threads-releases-every-suspended-one")
		return
	}
	zz.Reach("finished")
	zz.Assert((err0 == nil) == (err1 == nil), "C15.same-error-outcome")
	zz.Assert(res0 == res1, "C15.same-result")
	zz.Assert(log0.String() == log1.String(), "C15.same-log")
	zz.Assert(c15Dump(vs0) == c15Dump(vs), "C15.same-final-variables")
}

var c15SuspProgs = []string{
	"a := 1\nb := 2\nc := a + b\n",
	"func f(x) {\n  y := x + 1\n  return y\n}\nr := f(1)\nq := r + 1\n",
	"s := 0\nfor i in [1, 2] {\n  s := s + i\n}\nt := s\n",
	"r := 0\ntry {\n  raise(\"E\")\n} except e {\n  r := 1\n} finally {\n  r := r + 1\n}\n",
	"func f(x) {\n  return x + 1\n}\na := 1\nb := f(a) + a\nc := b\n",
	"func f(x) {\n  return x\n}\ns := 0\nfor i in [1, 2] {\n  s := s + f(i)\n}\n",
	"func g(x) {\n  return x * 2\n}\nfunc f(x) {\n  y := g(x) + 1\n  return y\n}\nr := f(1) + g(2)\n",
	"func f(x) {\n  if x > 1 {\n    return 0\n  }\n  return f(x + 1) + x\n}\nr := f(0)\n",
}
var c15SuspLines = []int{3, 6, 5, 8, 6, 7, 8, 7}

// c15Tracer is an independent observer in the debugger's place: it records the line of every visited state.
type c15Tracer struct {
	util.ECALDebugger
	lines []int
}

func (t *c15Tracer) VisitState(node *parser.ASTNode, vs parser.Scope, tid uint64) util.TraceableRuntimeError {
	if node.Token != nil {
		t.lines = append(t.lines, node.Token.Lline)
	}
	return nil
}
func (t *c15Tracer) VisitStepInState(node *parser.ASTNode, vs parser.Scope, tid uint64) util.TraceableRuntimeError {
	return nil
}
func (t *c15Tracer) VisitStepOutState(node *parser.ASTNode, vs parser.Scope, tid uint64, soErr error) util.TraceableRuntimeError {
	return nil
}
func (t *c15Tracer) SetLockingState(mutexeOwners map[string]uint64, mutexLog *datautil.RingBuffer) {}
func (t *c15Tracer) SetThreadPool(tp *pool.ThreadPool)                                              {}

// VerifC15Suspensions: with a symbolic set of active breakpoints (one further breakpoint set and disabled again) and a
// driver that answers every suspension with resume, the thread suspends exactly at the lines the statement names: each
// time it arrives, from a different line than the one it was last suspended on, at a line with an active breakpoint.
// The line sequence of the program comes from an independent tracer put in the debugger's place in a second run.
func VerifC15Suspensions() {
	pi := zz.Choice("prog", len(c15SuspProgs))
	if f := zz.Param("PROG", -1); f >= 0 {
		zz.Assume(pi == f)
	}
	n := c15SuspLines[pi]
	// reference: visited lines of the program
	erp0, _ := zzProvider()
	tr := &c15Tracer{}
	erp0.Debugger = tr
	zzRun(erp0, c15SuspProgs[pi], scope.NewScope(scope.GlobalScope))
	// debugged run
	erp, _ := zzProvider()
	vs := scope.NewScope(scope.GlobalScope)
	dbg := NewECALDebugger(scope.NewScope(scope.GlobalScope))
	erp.Debugger = dbg
	dbg.BreakOnError(false) // suspension at a failing call is a separate, switchable feature
	ast, err := parser.ParseWithRuntime("t", c15SuspProgs[pi], erp)
	zz.Assert(err == nil && ast.Runtime.Validate() == nil, "C15.setup")
	active := make([]bool, n+1)
	for l := 1; l <= n; l++ {
		if zz.Bool("bp" + c15Lbl[l]) {
			dbg.SetBreakPoint("t", l)
			active[l] = true
		}
	}
	if d := zz.Choice("disabled", n+1); d > 0 {
		dbg.SetBreakPoint("t", d)
		dbg.DisableBreakPoint("t", d)
		active[d] = false
	}
	var want []int
	cur := 0
	for _, l := range tr.lines {
		if cur != 0 {
			if l == cur {
				continue
			}
			cur = 0
		}
		if l <= n && active[l] {
			want = append(want, l)
			cur = l
		}
	}
	finished := false
	go func() {
		ast.Runtime.Eval(vs, make(map[string]interface{}), 7)
		finished = true
	}()
	var got []int
	max := zz.Param("CMDS", 16)
	for i := 0; i < max && !finished; i++ {
		zz.Quiesce() // deterministic schedule: the program thread runs until it suspends or ends
		if finished {
			break
		}
		ed := dbg.(*ecalDebugger)
		ed.lock.RLock()
		is := ed.interrogationStates[7]
		ed.lock.RUnlock()
		zz.Assert(is != nil && !is.running, "C15.idle-unfinished-thread-is-suspended")
		if is == nil {
			break
		}
		got = append(got, is.node.Token.Lline)
		dbg.Continue(7, util.Resume)
	}
	if !finished {
		zz.Quiesce()
	}
	if !finished {
		dbg.StopThreads(0) // command bound used up: compare the prefix
		if len(want) > len(got) {
			want = want[:len(got)]
		}
	}
	zz.Reach("compared")
	same := len(got) == len(want)
	for i := 0; same && i < len(got); i++ {
		same = got[i] == want[i]
	}
	if !same {
		println("C15 suspensions: prog", pi, "finished", finished)
		for _, l := range tr.lines {
			println("  visited", l)
		}
		for _, l := range want {
			println("  want", l)
		}
		for _, l := range got {
			println("  got", l)
		}
	}
	zz.Assert(same, "C15.suspends-exactly-at-active-breakpoints-reached-from-another-line")
}

var c15BookSources = []string{"t", "tt", "t/u"} // names in a prefix relation

// VerifC15BreakpointBook: "setting, disabling or removing any breakpoints": a symbolic sequence of break / disablebreak /
// rmbreak <source>:<line> / rmbreak <source> commands (through the real command handler) over three sources whose names are
// prefixes of one another and two lines is mirrored in a table; the program (source name symbolic) then suspends exactly at
// the lines whose breakpoint is active in the table - no command touches the breakpoints of another source or line.
func VerifC15BreakpointBook() {
	erp, _ := zzProvider()
	vs := scope.NewScope(scope.GlobalScope)
	dbg := NewECALDebugger(scope.NewScope(scope.GlobalScope))
	erp.Debugger = dbg
	dbg.BreakOnError(false)
	ps := zz.Choice("programSource", len(c15BookSources))
	ast, err := parser.ParseWithRuntime(c15BookSources[ps], "a := 1\nb := 2\nc := 3\n", erp)
	zz.Assert(err == nil && ast.Runtime.Validate() == nil, "C15.setup")
	state := map[string]int{} // "source:line" -> 1 active, 2 disabled
	k := zz.Param("OPS", 2)
	for i := 0; i < k; i++ {
		op := zz.Choice("op"+c15Lbl[i], 4)
		s := c15BookSources[zz.Choice("source"+c15Lbl[i], len(c15BookSources))]
		l := 1 + zz.Choice("line"+c15Lbl[i], 2)
		key := s + ":" + c15Lbl[l]
		var cerr error
		switch op {
		case 0:
			_, cerr = dbg.HandleInput("break " + key)
			state[key] = 1
		case 1:
			_, cerr = dbg.HandleInput("disablebreak " + key)
			state[key] = 2
		case 2:
			_, cerr = dbg.HandleInput("rmbreak " + key)
			delete(state, key)
		case 3:
			_, cerr = dbg.HandleInput("rmbreak " + s)
			for _, l2 := range []string{"1", "2", "3"} {
				delete(state, s+":"+l2)
			}
		}
		zz.Assert(cerr == nil, "C15.breakpoint-command-accepted")
	}
	var want []int
	for l := 1; l <= 3; l++ {
		if state[c15BookSources[ps]+":"+c15Lbl[l]] == 1 {
			want = append(want, l)
		}
	}
	finished := false
	go func() {
		ast.Runtime.Eval(vs, make(map[string]interface{}), 7)
		finished = true
	}()
	var got []int
	for i := 0; i < 5 && !finished; i++ {
		zz.Quiesce()
		if finished {
			break
		}
		ed := dbg.(*ecalDebugger)
		ed.lock.RLock()
		is := ed.interrogationStates[7]
		ed.lock.RUnlock()
		zz.Assert(is != nil && !is.running, "C15.idle-unfinished-thread-is-suspended")
		if is == nil {
			break
		}
		got = append(got, is.node.Token.Lline)
		dbg.Continue(7, util.Resume)
	}
	if !finished {
		zz.Quiesce()
	}
	zz.Assert(finished, "C15.program-finishes-under-resume")
	zz.Reach("compared")
	same := len(got) == len(want)
	for i := 0; same && i < len(got); i++ {
		same = got[i] == want[i]
	}
	zz.Assert(same, "C15.suspends-exactly-at-the-breakpoints-left-active-by-the-commands")
}

var c15ConsoleCmds = []string{"break t:2", "disablebreak t:2", "rmbreak t:2", "rmbreak t", "status", "describe 7", "breakonstart false", "lockstate", "break u:1", "cont 7 resume", "cont 7 stepover"}

// VerifC15ConsoleRaces: a debug console (its own goroutine, as in the debug server) issues commands while a program
// thread runs: unsynchronised access of the two to the debugger's own bookkeeping (the breakpoint table, flags, thread
// states) is a data race - for the breakpoint map one that the Go runtime answers with a fatal "concurrent map read and
// map write".  Races are found by the happens-before pass and confirmed with the race detector.
func VerifC15ConsoleRaces() {
	erp, _ := zzProvider()
	vs := scope.NewScope(scope.GlobalScope)
	dbg := NewECALDebugger(scope.NewScope(scope.GlobalScope))
	erp.Debugger = dbg
	dbg.BreakOnError(false)
	prog := "a := 1\nb := a + 1\nc := b + 1\n"
	if zz.Param("MUTEX", 0) == 1 {
		prog = "a := 1\nmutex m {\n  b := a + 1\n}\nmutex n {\n  c := b + 1\n}\n"
	}
	ast, err := parser.ParseWithRuntime("t", prog, erp)
	zz.Assert(err == nil && ast.Runtime.Validate() == nil, "C15.setup")
	if zz.Bool("breakpointSetBeforehand") {
		dbg.HandleInput("break t:3")
		dbg.HandleInput("disablebreak t:3")
	}
	c1 := zz.Choice("command1", len(c15ConsoleCmds))
	c2 := zz.Choice("command2", len(c15ConsoleCmds))
	zz.ReportHeapRaces()
	if zz.Param("SYNC", 0) == 1 {
		zz.Schedule(zz.Param("P", 1)) // every sync operation is a pre-emption point: lock-order and read-lock re-entry deadlocks
	} else {
		zz.ScheduleEraser(zz.Param("P", 1))
	}
	var wg sync.WaitGroup
	wg.Add(2)
	go func() {
		defer wg.Done() // a stopped thread leaves through runtime.Goexit
		ast.Runtime.Eval(vs, make(map[string]interface{}), 7)
	}()
	go func() {
		// the console encodes every result, as the debug server does
		r1, _ := dbg.HandleInput(c15ConsoleCmds[c1])
		json.Marshal(r1)
		r2, _ := dbg.HandleInput(c15ConsoleCmds[c2])
		json.Marshal(r2)
		dbg.HandleInput("cont 7 resume") // in case the thread suspended at the breakpoint just set
		dbg.StopThreads(0)
		wg.Done()
	}()
	zz.Quiesce()
	dbg.StopThreads(0)
	wg.Wait()
	zz.Reach("both-done")
}
