package interpreter

import (
	"github.com/krotik/ecal/parser"
	zz "github.com/krotik/ecal/zzverif"
)

func c05Get(vs parser.Scope, name string) interface{} {
	v, _, _ := vs.GetValue(name)
	return v
}

func c05Num(vs parser.Scope, name string, want float64, label string) {
	got, ok := c05Get(vs, name).(float64)
	zz.Assert(ok, label)
	if ok {
		zz.Assert(zz.SameFloat(got, want), label)
	}
}

// VerifC05Containers: after a successful c[k] := v (or c.k := v), reading c[k] yields v - for list indices (also
// negative), string and number map keys, existing and new keys, nested paths, and through an alias; len agrees.
func VerifC05Containers() {
	erp, _ := zzProvider()
	vs := zzScope()
	v := zz.Float64("v")
	vs.SetValue("v", v)
	var src string
	wantLen := 0.0
	tmpl := zz.Choice("template", 7)
	if only := zz.Param("TEMPLATE", -1); only >= 0 {
		zz.Assume(tmpl == only)
	}
	switch tmpl {
	case 0: // list index, symbolic integer in range (negative counts from the end)
		i := zz.Int("index")
		zz.Assume(i >= -3)
		zz.Assume(i <= 2)
		vs.SetValue("i", float64(i))
		src = "c := [10, 20, 30]\nc[i] := v\nr := c[i]\nn := len(c)"
		wantLen = 3
	case 1: // map, string key, existing or new
		k := []string{"a", "b", "z"}[zz.Choice("key", 3)]
		vs.SetValue("k", k)
		src = "c := {\"a\" : 1, \"b\" : 2}\nc[k] := v\nr := c[k]\nn := len(c)"
		wantLen = 2
		if k == "z" {
			wantLen = 3
		}
	case 2: // map, number key, existing or new
		ki := zz.Choice("key", 3)
		vs.SetValue("k", float64(ki+1))
		src = "c := {1 : 10, 2 : 20}\nc[k] := v\nr := c[k]\nn := len(c)"
		wantLen = 2
		if ki == 2 {
			wantLen = 3
		}
	case 3: // dot access
		src = "c := {\"a\" : 1}\nc.a := v\nr := c.a\nn := len(c)"
		wantLen = 1
	case 4: // nested path
		src = "c := {\"a\" : [1, {\"b\" : 2}]}\nc.a[1].b := v\nr := c[\"a\"][1][\"b\"]\nn := len(c.a)"
		wantLen = 2
	case 5: // lists and maps are passed by reference: a write through an alias is seen through the original
		src = "c := [1, 2]\nd := c\nd[0] := v\nr := c[0]\nn := len(c)"
		wantLen = 2
	case 6: // numbers are passed by value: an alias does not see the write
		src = "x := v\ny := x\ny := 5\nr := x\nn := 0"
	}
	_, err := zzRun(erp, src, vs)
	zz.Reach("evaluated")
	zz.Assert(err == nil, "C05.write-and-read-succeed")
	if err != nil {
		return
	}
	c05Num(vs, "r", v, "C05.read-after-write-yields-written-value")
	c05Num(vs, "n", wantLen, "C05.len-agrees-with-container-model")
}

// VerifC05Scoping: lexical scoping, let, closures, recursion, defaults, fresh locals, by-value/by-reference.
func VerifC05Scoping() {
	erp, _ := zzProvider()
	vs := zzScope()
	x, y := zz.Float64("x"), zz.Float64("y")
	vs.SetValue("X", x)
	vs.SetValue("Y", y)
	tmpl := zz.Choice("template", 15)
	if only := zz.Param("TEMPLATE", -1); only >= 0 {
		zz.Assume(tmpl == only)
	}
	var src string
	switch tmpl {
	case 13: // the same func expression evaluated twice (a closure factory called twice): each closure keeps ITS definition scope
		src = "func mk(n) {\n return func(v) {\n  return v + n\n }\n}\nf1 := mk(X)\nf2 := mk(Y)\nr := f1(1)\ng := f2(1)"
	case 14: // a helper declared inside a function that is called twice sees the locals of the current call
		src = "func outer(a) {\n func helper() {\n  return a\n }\n return helper()\n}\nr := outer(X)\ng := outer(Y)"
	case 0: // assignment updates the nearest enclosing definition
		src = "a := X\nfunc f() {\n a := a + 1\n return a\n}\nr := f()\ng := a"
	case 1: // let always defines locally
		src = "a := X\nfunc f() {\n let a := 5\n a := a + 1\n return a\n}\nr := f()\ng := a"
	case 2: // a name defined in a block is not visible outside; the block sees and updates outer names
		src = "a := X\nif true {\n b := a + 1\n a := b\n}\ng := a\nr := b"
	case 3: // closures capture their definition scope and can be returned
		src = "func mk(n) {\n func inner(v) {\n  return v + n\n }\n return inner\n}\nadd := mk(Y)\nr := add(X)\ng := 0"
	case 4: // recursion
		k := zz.Len("k", 0, 3)
		vs.SetValue("K", float64(k))
		src = "func fac(n) {\n if n <= 1 {\n  return 1\n }\n return n * fac(n - 1)\n}\nr := fac(K)\ng := K"
	case 5: // default parameter value used when the argument is missing
		src = "func f(a, b=7) {\n return a + b\n}\nr := f(X)\ng := f(X, Y)"
	case 6: // fresh locals per call
		src = "func f(c) {\n if c == 0 {\n  return loc\n }\n loc := 99\n return loc\n}\ng := f(1)\nr := f(0)"
	case 7: // lists by reference, numbers by value as arguments
		src = "func h(l, n) {\n l[0] := X\n n := 9\n}\na := [1]\nb := 1\nh(a, b)\nr := a[0]\ng := b"
	case 8: // nothing defined inside a function call is visible outside
		src = "func f() {\n inner := X\n return inner\n}\ng := f()\nr := inner"
	case 9: // function scope sees globals defined before the call, not the caller's locals
		src = "glob := X\nfunc callee() {\n return glob\n}\nfunc caller() {\n let glob := 5\n return callee()\n}\nr := caller()\ng := glob"
	case 10: // fewer arguments than parameters: the missing parameter (no default) is NULL, not a left-over value
		src = "func f(a, b) {\n return b\n}\nr := f(X)\ng := f(X, Y)"
	case 11: // a missing parameter after one with a default
		src = "func f(a, b=7, c) {\n return c\n}\nr := f(X)\ng := f(X, Y)"
	case 12: // more arguments than parameters: the declared parameters keep their positional values
		src = "func f(a, b) {\n return a - b\n}\nr := f(X, Y, 99)\ng := 0"
	}
	_, err := zzRun(erp, src, vs)
	zz.Reach("evaluated")
	zz.Assert(err == nil, "C05.program-evaluates")
	if err != nil {
		return
	}
	r, g := c05Get(vs, "r"), c05Get(vs, "g")
	switch tmpl {
	case 0:
		c05Num(vs, "r", x+1, "C05.assignment-updates-nearest-definition")
		c05Num(vs, "g", x+1, "C05.assignment-updates-nearest-definition")
	case 1:
		c05Num(vs, "r", 6, "C05.let-defines-locally")
		c05Num(vs, "g", x, "C05.let-defines-locally")
	case 2:
		c05Num(vs, "g", x+1, "C05.block-updates-outer-name")
		zz.Assert(r == nil, "C05.block-local-not-visible-outside")
	case 3:
		c05Num(vs, "r", x+y, "C05.closure-captures-definition-scope")
	case 4:
		k := g.(float64)
		want := 1.0
		for i := 2.0; i <= k; i++ {
			want *= i
		}
		c05Num(vs, "r", want, "C05.recursion")
	case 5:
		c05Num(vs, "r", x+7, "C05.default-parameter-value")
		c05Num(vs, "g", x+y, "C05.positional-parameters")
	case 6:
		c05Num(vs, "g", 99, "C05.fresh-locals-per-call")
		zz.Assert(r == nil, "C05.fresh-locals-per-call")
	case 7:
		c05Num(vs, "r", x, "C05.lists-passed-by-reference")
		c05Num(vs, "g", 1, "C05.numbers-passed-by-value")
	case 8:
		c05Num(vs, "g", x, "C05.function-result")
		zz.Assert(r == nil, "C05.function-local-not-visible-outside")
	case 9:
		c05Num(vs, "r", x, "C05.lexical-not-dynamic-scoping")
		c05Num(vs, "g", x, "C05.lexical-not-dynamic-scoping")
	case 10:
		zz.Assert(r == nil, "C05.missing-argument-is-null")
		c05Num(vs, "g", y, "C05.positional-parameters")
	case 11:
		zz.Assert(r == nil && g == nil, "C05.missing-argument-is-null")
	case 12:
		c05Num(vs, "r", x-y, "C05.positional-parameters")
	case 13:
		c05Num(vs, "r", 1+x, "C05.closure-captures-definition-scope")
		c05Num(vs, "g", 1+y, "C05.closure-captures-definition-scope")
	case 14:
		c05Num(vs, "r", x, "C05.fresh-locals-per-call")
		c05Num(vs, "g", y, "C05.fresh-locals-per-call")
	}
}

// VerifC05Builtins: add / del / concat / len agree with the list model for every in-range index.
func VerifC05Builtins() {
	erp, _ := zzProvider()
	vs := zzScope()
	v := zz.Float64("v")
	vs.SetValue("v", v)
	base := []float64{10, 20, 30}
	var want []float64
	var src string
	switch zz.Choice("template", 4) {
	case 0:
		i := zz.Len("index", 0, 3)
		vs.SetValue("i", float64(i))
		src = "l := [10, 20, 30]\nr := add(l, v, i)"
		want = append(append(append([]float64(nil), base[:i]...), v), base[i:]...)
	case 1:
		src = "l := [10, 20, 30]\nr := add(l, v)"
		want = append(append([]float64(nil), base...), v)
	case 2:
		i := zz.Len("index", 0, 2)
		vs.SetValue("i", float64(i))
		src = "l := [10, 20, 30]\nr := del(l, i)"
		want = append(append([]float64(nil), base[:i]...), base[i+1:]...)
	case 3:
		src = "r := concat([10], [20, 30], [v])"
		want = append(append([]float64(nil), base...), v)
	}
	src += "\nn := len(r)"
	_, err := zzRun(erp, src, vs)
	zz.Reach("evaluated")
	zz.Assert(err == nil, "C05.builtin-succeeds")
	if err != nil {
		return
	}
	c05Num(vs, "n", float64(len(want)), "C05.len-agrees-with-list-model")
	l, ok := c05Get(vs, "r").([]interface{})
	zz.Assert(ok && len(l) == len(want), "C05.list-model")
	if ok && len(l) == len(want) {
		for i := range want {
			f, isNum := l[i].(float64)
			zz.Assert(isNum && zz.SameFloat(f, want[i]), "C05.list-model")
		}
	}
}

// VerifC05Objects: an object made with new carries the properties of its template and all super templates, methods see it
// as this, init runs once with the constructor arguments and has access to the super constructors.
func VerifC05Objects() {
	erp, _ := zzProvider()
	vs := zzScope()
	x := zz.Float64("x")
	vs.SetValue("X", x)
	src := "inits := 0\n" +
		"A := {\n \"pa\" : 1,\n \"init\" : func() {\n  this.ia := 11\n }\n}\n" +
		"B := {\n \"pb\" : 2\n}\n" +
		"C := {\n \"super\" : [ A, B ],\n \"pc\" : 3,\n" +
		" \"init\" : func(v) {\n  super[0]()\n  this.v := v\n  inits := inits + 1\n },\n" +
		" \"get\" : func() {\n  return this.v + this.pa + this.pb + this.pc\n }\n}\n" +
		"o := new(C, X)\nr := o.get()\ng := o.ia\no2 := new(C, 1)\nq := o.v"
	y := zz.Float64("y")
	vs.SetValue("Y", y)
	tmpl := zz.Choice("objectTemplate", 3)
	switch tmpl {
	case 1: // template built inside a factory function: its methods are closures over the factory's locals
		src = "func mk(n) {\n T := {\n  \"init\" : func(v) {\n   this.v := v\n  },\n  \"get\" : func() {\n   return n + this.v\n  }\n }\n return new(T, X)\n}\no := mk(Y)\nr := o.get()"
	case 2: // global template instantiated inside a function that shadows a name the method uses
		src = "x := X\nT := {\n \"get\" : func() {\n  return x\n }\n}\nfunc user() {\n let x := 5\n o := new(T)\n return o.get()\n}\nr := user()"
	}
	_, err := zzRun(erp, src, vs)
	zz.Reach("evaluated")
	zz.Assert(err == nil, "C05.object-program-evaluates")
	if err != nil {
		return
	}
	if tmpl == 1 {
		c05Num(vs, "r", y+x, "C05.methods-resolve-names-lexically")
		return
	}
	if tmpl == 2 {
		c05Num(vs, "r", x, "C05.methods-resolve-names-lexically")
		return
	}
	c05Num(vs, "r", x+1+2+3, "C05.object-has-own-and-inherited-properties-and-this")
	c05Num(vs, "g", 11, "C05.super-constructor-ran-on-this")
	c05Num(vs, "inits", 2, "C05.init-runs-once-per-new")
	c05Num(vs, "q", x, "C05.objects-do-not-share-state")
}

func c05List(vs parser.Scope, name string, want []float64, label string) {
	l, ok := c05Get(vs, name).([]interface{})
	zz.Assert(ok && len(l) == len(want), label)
	if ok && len(l) == len(want) {
		for i := range want {
			f, isNum := l[i].(float64)
			zz.Assert(isNum && zz.SameFloat(f, want[i]), label)
		}
	}
}

// VerifC05FreshLists: lists are reference values and concat returns a NEW list (language reference): a list of
// symbolic length N (0..5, built by a literal or by repeated add, so that every backing-array fill level occurs)
// is the first or second argument of two concat calls; then one of the lists is written through an index.
// Every list is compared with a model of independent lists: a later concat of the same argument and a write
// through one list are never visible in another one; an alias made by assignment sees the write.
func VerifC05FreshLists() {
	erp, _ := zzProvider()
	vs := zzScope()
	n := zz.Len("n", 0, 5)
	v1, v2, w := zz.Float64("v1"), zz.Float64("v2"), zz.Float64("w")
	vs.SetValue("v1", v1)
	vs.SetValue("v2", v2)
	vs.SetValue("w", w)
	var a []float64
	src := "a := ["
	byAdd := zz.Bool("builtByAdd")
	if byAdd {
		src = "a := []\n"
	}
	for i := 0; i < n; i++ {
		a = append(a, float64(i+1))
		d := string(rune('1' + i))
		if byAdd {
			src += "a := add(a, " + d + ")\n"
		} else {
			if i > 0 {
				src += ", "
			}
			src += d
		}
	}
	if !byAdd {
		src += "]\n"
	}
	src += "al := a\n"
	var b, c []float64
	if zz.Bool("sharedArgumentFirst") {
		src += "b := concat(a, [v1])\nc := concat(a, [v2])\n"
		b = append(append([]float64(nil), a...), v1)
		c = append(append([]float64(nil), a...), v2)
	} else {
		src += "b := concat([v1], a)\nc := concat([v2], a)\n"
		b = append([]float64{v1}, a...)
		c = append([]float64{v2}, a...)
	}
	// write through one of the lists
	switch zz.Choice("writeTo", 3) {
	case 0:
		if n > 0 {
			src += "a[0] := w\n"
			a[0] = w
		}
	case 1:
		src += "b[0] := w\n"
		b[0] = w
	case 2:
		src += "c[" + string(rune('0'+len(c)-1)) + "] := w\n"
		c[len(c)-1] = w
	}
	src += "d := concat(b, c)\nn := len(d)"
	_, err := zzRun(erp, src, vs)
	zz.Reach("evaluated")
	zz.Assert(err == nil, "C05.builtin-succeeds")
	if err != nil {
		return
	}
	c05List(vs, "a", a, "C05.concat-leaves-its-arguments-alone")
	c05List(vs, "al", a, "C05.lists-are-passed-by-reference")
	c05List(vs, "b", b, "C05.concat-returns-a-new-list")
	c05List(vs, "c", c, "C05.concat-returns-a-new-list")
	c05List(vs, "d", append(append([]float64(nil), b...), c...), "C05.list-model")
	c05Num(vs, "n", float64(len(b)+len(c)), "C05.len-agrees-with-list-model")
}
