package interpreter

import (
	"github.com/krotik/ecal/engine"
	"github.com/krotik/ecal/parser"
	"github.com/krotik/ecal/util"
	zz "github.com/krotik/ecal/zzverif"
)

var c11Marks []string

type c11Mark struct{ *inbuildBaseFunc }

func (f *c11Mark) Run(instanceID string, vs parser.Scope, is map[string]interface{}, tid uint64, args []interface{}) (interface{}, error) {
	c11Marks = append(c11Marks, args[0].(string)+"/"+args[1].(string))
	return nil, nil
}
func (f *c11Mark) DocString() (string, error) { return "", nil }

const c11Sink = "sink %NAME%\n  kindmatch [ \"%KIND%\" ],\n  {\n" +
	"    local := event.state.id\n" +
	"    mark(event.state.id, local)\n" +
	"    if event.state.fail {\n" +
	"      raise(\"E{{event.state.id}}\", \"detail {{event.state.id}}\", event.state.id)\n" +
	"    }\n" +
	"    mark(event.state.id, local)\n" +
	"  }\n"

func c11Src(name, kind string) string {
	s := ""
	t := c11Sink
	for i := 0; i < len(t); i++ {
		if i+6 <= len(t) && t[i:i+6] == "%NAME%" {
			s += name
			i += 5
		} else if i+6 <= len(t) && t[i:i+6] == "%KIND%" {
			s += kind
			i += 5
		} else {
			s += t[i : i+1]
		}
	}
	return s
}

// VerifC11Sinks: N events (failing flags symbolic; same sink or two different sinks) are processed by two
// workers at the same time: each invocation sees its own event and locals; the error report of each cascade
// holds exactly what that invocation produced (type, detail, data); nothing is lost or mis-attributed.
func VerifC11Sinks() {
	InbuildFuncMap["mark"] = &c11Mark{}
	c11Marks = nil
	erp, _ := zzProvider()
	erp.Processor = engine.NewProcessor(2)
	erp.Processor.SetFailOnFirstErrorInTriggerSequence(true)
	vs := zzScope()
	two := zz.Param("SINKS", 1) == 2
	src := ""
	if zz.Param("GLOBALS", 0) == 1 && zz.Bool("globals") {
		// the declaration scope already holds names the invocation scope defines itself: an invocation still sees its own event
		src += "event := {\"name\": \"g\", \"kind\": \"g\", \"state\": {\"id\": \"glob\", \"fail\": false}}\n"
	}
	ka, kb := "a", "b"
	if w := zz.Param("WILD", 0); w > 0 {
		// rule index layout: up to w-1 sinks on the wildcard pattern x.* next to the sinks on the specific kinds x.a / x.b
		ka, kb = "x.a", "x.b"
		nw := zz.Choice("wildcardSinks", w)
		for i := 0; i < nw; i++ {
			src += "sink w" + []string{"0", "1", "2", "3"}[i] + "\n  kindmatch [ \"x.*\" ],\n  {\n    mark(event.state.id, event.state.id)\n  }\n"
		}
	}
	src += c11Src("s1", ka)
	if two {
		src += c11Src("s2", kb)
	}
	_, err := zzRun(erp, src, vs)
	zz.Assert(err == nil, "C11.setup")
	proc := erp.Processor
	n := zz.Param("EVENTS", 2)
	ids := []string{"one", "two", "three"}
	fails := make([]bool, n)
	mons := make([]*engine.RootMonitor, n)
	for i := 0; i < n; i++ {
		fails[i] = zz.Bool("fail" + ids[i])
	}
	zz.ReportHeapRaces()
	if zz.Param("SYNC", 0) == 1 {
		zz.Schedule(zz.Param("P", 1)) // every sync operation (scope locks included) is a pre-emption point
	} else {
		zz.ScheduleEraser(zz.Param("P", 1))
	}
	proc.Start()
	for i := 0; i < n; i++ {
		kind := ka
		if two && i%2 == 1 {
			kind = kb
		}
		mons[i] = proc.NewRootMonitor(nil, nil)
		segs := []string{kind}
		if len(kind) == 3 { // "x.a": two segments
			segs = []string{kind[:1], kind[2:]}
		}
		proc.AddEvent(engine.NewEvent("e"+ids[i], segs, map[interface{}]interface{}{"fail": fails[i], "id": ids[i]}), mons[i])
	}
	zz.Quiesce()
	zz.Reach("quiescent")
	for i := 0; i < n; i++ {
		zz.Assert(mons[i].IsFinished(), "C11.cascade-finished")
		if !mons[i].IsFinished() {
			continue
		}
		errs := mons[i].AllErrors()
		if !fails[i] {
			zz.Assert(len(errs) == 0, "C11.no-error-for-succeeding-invocation")
			continue
		}
		zz.Assert(len(errs) == 1, "C11.error-of-failing-invocation-recorded-once")
		if len(errs) != 1 {
			continue
		}
		zz.Assert(errs[0].Event.Name() == "e"+ids[i], "C11.error-attributed-to-its-event")
		for _, e := range errs[0].ErrorMap {
			rd, ok := e.(*util.RuntimeErrorWithDetail)
			zz.Assert(ok, "C11.error-has-detail")
			if ok {
				zz.Assert(rd.Type.Error() == "E"+ids[i] && rd.Detail == "detail "+ids[i] && rd.Data == interface{}(ids[i]), "C11.error-carries-what-its-invocation-produced")
			}
		}
	}
	// every invocation saw its own event and its own local
	for _, m := range c11Marks {
		ok := false
		for _, id := range ids {
			if m == id+"/"+id {
				ok = true
			}
		}
		zz.Assert(ok, "C11.invocation-sees-its-own-event-and-locals")
	}
}

// VerifC11EcalReport: the error report as ECAL code sees it (addEventAndWait): one waited event fans out to two events on
// the same sink (failing flags symbolic), two workers; every entry of the result names its own event and holds exactly the
// error that invocation raised (type, detail, data) - nothing lost, duplicated or attributed to the other event.
func VerifC11EcalReport() {
	InbuildFuncMap["mark"] = &c11Mark{}
	c11Marks = nil
	erp, _ := zzProvider()
	erp.Processor = engine.NewProcessor(2)
	vs := zzScope()
	f1, f2 := zz.Bool("failone"), zz.Bool("failtwo")
	vs.SetValue("F1", f1)
	vs.SetValue("F2", f2)
	src := c11Src("s1", "a") +
		"sink fan\n  kindmatch [ \"r\" ],\n  {\n    addEvent(\"eone\", \"a\", {\"fail\" : F1, \"id\" : \"one\"})\n    addEvent(\"etwo\", \"a\", {\"fail\" : F2, \"id\" : \"two\"})\n  }\n" +
		"res := addEventAndWait(\"root\", \"r\", {})\n"
	zz.ReportHeapRaces()
	zz.ScheduleEraser(zz.Param("P", 1))
	_, err := zzRun(erp, src, vs)
	zz.Reach("evaluated")
	zz.Assert(err == nil, "C11.setup")
	if err != nil {
		return
	}
	resv, _, _ := vs.GetValue("res")
	want := 0
	if f1 {
		want++
	}
	if f2 {
		want++
	}
	res, _ := resv.([]interface{})
	zz.Assert(len(res) == want, "C11.error-of-failing-invocation-recorded-once")
	seen := map[string]int{}
	for _, it := range res {
		item := it.(map[interface{}]interface{})
		ev := item["event"].(map[interface{}]interface{})
		errs := item["errors"].(map[interface{}]interface{})
		id := "one"
		fails := f1
		if ev["name"] == "etwo" {
			id, fails = "two", f2
		}
		seen[id]++
		zz.Assert(fails && seen[id] == 1, "C11.error-attributed-to-its-event")
		zz.Assert(len(errs) == 1, "C11.error-of-failing-invocation-recorded-once")
		e, has := errs["s1"].(map[interface{}]interface{})
		zz.Assert(has && e["type"] == "E"+id && e["detail"] == "detail "+id && e["data"] == interface{}(id), "C11.error-carries-what-its-invocation-produced")
	}
}
