package interpreter

import (
	"encoding/json"

	"github.com/krotik/ecal/parser"
	"github.com/krotik/ecal/scope"
	"github.com/krotik/ecal/util"
	zz "github.com/krotik/ecal/zzverif"
)

var c16Cmds = []string{"status", "lockstate", "breakonstart", "break", "rmbreak", "disablebreak", "cont", "describe", "extract", "inject", "bogus", ""}
var c16Args = []string{"1", "77", "-1", "99999999999999999999", "t:2", "t:", ":5", "t", "a", "1+", "stepin", "stepover", "stepout", "resume", "true", "0", "foo()", "len(1)", "1+\"a\"", "b", "f(1)"} // f: a function the program of state 3 defines
var c16Lbl = []string{"0", "1", "2", "3", "4", "5"}

const c16ProgTop = "func f(x) { return x }\nb := 2\nc := 3" // f: a program function without a breakpoint in it
const c16ProgCall = "func f(x) {\n  y := x\n  return y\n}\nr := f(1)\nq := 2"

// values a variable of the suspended program may hold (VALUES=1): every kind of the ECAL value universe incl. the
// non-finite numbers, nested containers, a map with a number key and a function
var c16Values = []string{"1", "1 / 0", "0 - 1 / 0", "0 / 0", "\"s\"", "[1, [2, null]]", "{\"k\" : [1]}", "{1 : 2}", "null", "len", "true"}

// c16State builds one of the debugger states: 0 fresh, 1 finished run, 2 thread suspended at top level,
// 3 thread suspended inside a call, 4 thread suspended by break-on-error at a failing call.
func c16State(kind int) util.ECALDebugger {
	// the debugger works on the interpreter's global scope, the one the program runs in (as the command line tools set it up)
	vs := scope.NewScope(scope.GlobalScope)
	dbg := NewECALDebugger(vs)
	if kind == 0 {
		return dbg
	}
	erp, _ := zzProvider()
	erp.Debugger = dbg
	src := c16ProgTop
	if kind == 3 {
		src = c16ProgCall
	}
	if zz.Param("VALUES", 0) == 1 && kind >= 2 {
		v := c16Values[zz.Choice("value", len(c16Values))]
		switch kind {
		case 2:
			src = "a := " + v + "\nb := 2\nc := 3"
		case 3:
			src = "func f(x) {\n  y := x\n  return y\n}\ng := " + v + "\nr := f(g)\nq := 2"
		case 4: // suspended by break-on-error at a raise whose data is the value
			src = "a := " + v + "\nraise(\"T\", \"d\", a)\nc := 3"
		}
	}
	if kind == 4 && zz.Param("VALUES", 0) != 1 {
		src = "a := 1\nraise(\"T\", \"d\", a)\nc := 3"
	}
	if kind >= 2 && kind != 4 {
		_, err := dbg.HandleInput("break t:2")
		zz.Assert(err == nil, "C16.setup-break")
	}
	ast, err := parser.ParseWithRuntime("t", src, erp)
	zz.Assert(err == nil, "C16.setup-parse")
	zz.Assert(ast.Runtime.Validate() == nil, "C16.setup-validate")
	tid := erp.NewThreadID()
	if kind == 1 {
		_, err = ast.Runtime.Eval(vs, make(map[string]interface{}), tid)
		zz.Assert(err == nil, "C16.setup-run")
		return dbg
	}
	go func() {
		ast.Runtime.Eval(vs, make(map[string]interface{}), tid)
		dbg.RecordThreadFinished(tid)
	}()
	zz.Quiesce() // the program thread runs until it is suspended at the breakpoint
	return dbg
}

// VerifC16Total: NCMD command lines (command and arguments symbolic choices, one argument optionally two
// arbitrary bytes) in every debugger state: no panic, the debugger lock is free afterwards and a following
// status command answers.
func VerifC16Total() {
	kind := zz.Choice("state", 5)
	if only := zz.Param("STATE", -1); only >= 0 {
		zz.Assume(kind == only)
	}
	dbg := c16State(kind)
	zz.Reach("state-built")
	ncmd := zz.Param("NCMD", 1)
	maxArgs := zz.Param("MAXARGS", 2)
	for c := 0; c < ncmd; c++ {
		ci := zz.Choice("cmd"+c16Lbl[c], len(c16Cmds))
		if only := zz.Param("CMD", -1); only >= 0 {
			zz.Assume(ci == only)
		}
		line := c16Cmds[ci]
		callsF := false
		na := zz.Choice("nargs"+c16Lbl[c], maxArgs+1)
		i3 := -1
		for i := 0; i < na; i++ {
			ai := zz.Choice("arg"+c16Lbl[c]+c16Lbl[i], len(c16Args)+1)
			if ai < len(c16Args) && c16Args[ai] == "f(1)" {
				i3 = i
			}
			if ai == len(c16Args) {
				g := zz.Bytes("garbage"+c16Lbl[c]+c16Lbl[i], 2)
				zz.Assume(zz.OneOf(g[0], "a1:-. "))
				zz.Assume(zz.OneOf(g[1], "a1:-. "))
				line += " " + string(g)
			} else {
				line += " " + c16Args[ai]
				callsF = callsF || c16Args[ai] == "f(1)"
			}
		}
		// listed known finding: the expression of an inject command calls a program function with an active breakpoint in
		// it - the evaluation done for the console suspends at that breakpoint and the command never returns
		zz.Known("C16-inject-expression-suspends-at-a-breakpoint", "deadlock", kind == 3 && ci == 9 && callsF && i3 == 2)
		res, cerr := dbg.HandleInput(line)
		zz.Reach("command-returned")
		if cerr == nil {
			_, jerr := json.Marshal(res)
			zz.Assert(jerr == nil, "C16.result-is-json-encodable")
		}
		ed := dbg.(*ecalDebugger)
		free := ed.lock.TryLock()
		zz.Assert(free, "C16.debugger-lock-not-held-after-command")
		if free {
			ed.lock.Unlock()
		}
	}
	_, err := dbg.HandleInput("status")
	zz.Assert(err == nil, "C16.still-answering")
	zz.Reach("status-answered")
}
