package interpreter

import (
	"github.com/krotik/ecal/parser"
	"github.com/krotik/ecal/scope"
	"github.com/krotik/ecal/util"
	zz "github.com/krotik/ecal/zzverif"
)

// zzProvider builds a real runtime provider with an in-memory import locator and logger.
func zzProvider() (*ECALRuntimeProvider, *util.MemoryLogger) {
	logger := util.NewMemoryLogger(100)
	erp := NewECALRuntimeProvider("t", &util.MemoryImportLocator{Files: map[string]string{}}, logger)
	return erp, logger
}

// zzRun parses, validates and evaluates src in vs with the real parser and interpreter.
func zzRun(erp *ECALRuntimeProvider, src string, vs parser.Scope) (interface{}, error) {
	ast, err := parser.ParseWithRuntime("t", src, erp)
	if err != nil {
		return nil, err
	}
	if err = ast.Runtime.Validate(); err != nil {
		return nil, err
	}
	return ast.Runtime.Eval(vs, make(map[string]interface{}), 1)
}

// value kinds of the ECAL value universe used by several harnesses
const (
	zzKNull = iota
	zzKBool
	zzKNum
	zzKStr
	zzKList
	zzKMap
	zzKFunc
	zzKEmptyList
	zzKNestedList
	zzKTrace    // what except binds as e.trace: a Go []string
	zzKErrorObj // what except binds as e: a map holding strings, a []string trace and arbitrary data
	zzKinds
)

// zzStrAlphabet: bytes a symbolic string operand may hold (letter, digit, regexp meta characters, space, backslash)
const zzStrAlphabet = "a0(. \\"

// zzValue returns a value of the chosen kind with symbolic content.
func zzValue(label string, kind int) interface{} {
	switch kind {
	case zzKBool:
		return zz.Bool(label + "_b")
	case zzKNum:
		return zz.Float64(label + "_f")
	case zzKStr:
		b := zz.Bytes(label+"_s", 1)
		zz.Assume(zz.OneOf(b[0], zzStrAlphabet))
		return string(b)
	case zzKList:
		return []interface{}{zz.Float64(label + "_l0"), "x"}
	case zzKMap:
		return map[interface{}]interface{}{"k": zz.Float64(label + "_m0")}
	case zzKFunc:
		return InbuildFuncMap["len"]
	case zzKEmptyList:
		return []interface{}{}
	case zzKNestedList:
		return []interface{}{[]interface{}{zz.Float64(label + "_n0")}}
	case zzKTrace:
		return []string{"raise(\"E\") (t:1)"}
	case zzKErrorObj:
		return map[interface{}]interface{}{"type": "E", "error": "ECAL error in t: E () (Line:1 Pos:1)", "detail": "", "data": nil,
			"line": 1.0, "pos": 1.0, "source": "t", "trace": []string{"raise(\"E\") (t:1)"}}
	}
	return nil
}

func zzScope() parser.Scope { return scope.NewScope(scope.GlobalScope) }

// zzRunTid is zzRun with an explicit thread id.
func zzRunTid(erp *ECALRuntimeProvider, src string, vs parser.Scope, tid uint64) (interface{}, error) {
	ast, err := parser.ParseWithRuntime("t", src, erp)
	if err != nil {
		return nil, err
	}
	if err = ast.Runtime.Validate(); err != nil {
		return nil, err
	}
	return ast.Runtime.Eval(vs, make(map[string]interface{}), tid)
}

// mark("x"): an ECAL function harnesses register to record the order of events in real programs.
var c02Marks []string

type c02Mark struct{ *inbuildBaseFunc }

func (f *c02Mark) Run(instanceID string, vs parser.Scope, is map[string]interface{}, tid uint64, args []interface{}) (interface{}, error) {
	c02Marks = append(c02Marks, args[0].(string))
	return nil, nil
}
func (f *c02Mark) DocString() (string, error) { return "", nil }

