package tool

import (
	"io"
	"os"
	"time"

	zz "github.com/krotik/ecal/zzverif"
)

var vfContent []byte
var vfOff int
var vfPos int64 = -1

type vfInfo struct{ size int64 }

func (i vfInfo) Name() string       { return "bin" }
func (i vfInfo) Size() int64        { return i.size }
func (i vfInfo) Mode() os.FileMode  { return 0755 }
func (i vfInfo) ModTime() time.Time { return time.Time{} }
func (i vfInfo) IsDir() bool        { return false }
func (i vfInfo) Sys() interface{}   { return nil }

func vfAbs(p string) (string, error)        { return p, nil }
func vfExists(p string) (bool, error)       { return true, nil }
func vfStat(name string) (os.FileInfo, error) { return vfInfo{int64(len(vfContent))}, nil }
func vfOpen(name string) (*os.File, error)  { return nil, nil }
func vfRead(f *os.File, b []byte) (int, error) {
	if vfOff >= len(vfContent) {
		return 0, io.EOF
	}
	n := copy(b, vfContent[vfOff:])
	vfOff += n
	return n, nil
}
func vfSeek(f *os.File, off int64, whence int) (int64, error) { vfOff = int(off); return off, nil }
func vfClose(f *os.File) error                               { return nil }
func vfSection(r io.ReaderAt, off, n int64) *io.SectionReader { return nil }
func vfRun(reader io.ReaderAt, size int64) (interface{}, error) {
	vfPos = int64(len(vfContent)) - size
	return 0.0, nil
}

// VerifC20Scan: the marker scan finds the archive for every binary length (b1 shrunk to 8) and filler.
func VerifC20Scan() {
	b1 = 8
	period := b1 + b2
	n := zz.Len("n", 0, 9)
	_ = period
	filler := zz.Bytes("fill", n)
	for i := range filler {
		zz.Assume(filler[i] == 'x' || filler[i] == '#' || filler[i] == '\n')
	}
	vfContent = append(append(append([]byte(nil), filler...), []byte(packmarker)...), 'P', 'K', 3, 4)
	zz.Replace("path/filepath.Abs", vfAbs)
	zz.Replace("github.com/krotik/common/fileutil.PathExists", vfExists)
	zz.Replace("os.Stat", vfStat)
	zz.Replace("os.Open", vfOpen)
	zz.Replace("(*os.File).Read", vfRead)
	zz.Replace("(*os.File).Seek", vfSeek)
	zz.Replace("(*os.File).Close", vfClose)
	zz.Replace("io.NewSectionReader", vfSection)
	zz.Replace("github.com/krotik/ecal/cli/tool.runInterpreter", vfRun)
	osArgs = []string{"bin"}
	exited := false
	osExit = func(c int) { exited = true }
	handleError = func(e error) {}
	RunPackedBinary()
	zz.Reach("scanned")
	zz.Assert(exited && vfPos == int64(n+len(packmarker)), "C20.marker-found-at-archive-start")
}
