package interpreter

import (
	"sync"

	"github.com/krotik/common/datautil"
	"github.com/krotik/ecal/parser"
	"github.com/krotik/ecal/scope"
	"github.com/krotik/ecal/util"
	zz "github.com/krotik/ecal/zzverif"
)

var verifOcc int
var verifMaxOcc int
var verifProbe sync.Mutex

type verifEnter struct{ *inbuildBaseFunc }

func (f *verifEnter) Run(instanceID string, vs parser.Scope, is map[string]interface{}, tid uint64, args []interface{}) (interface{}, error) {
	verifOcc++
	if verifOcc > verifMaxOcc {
		verifMaxOcc = verifOcc
	}
	verifProbe.Lock() // a visible operation inside the block
	verifProbe.Unlock()
	return nil, nil
}
func (f *verifEnter) DocString() (string, error) { return "", nil }

type verifLeave struct{ *inbuildBaseFunc }

func (f *verifLeave) Run(instanceID string, vs parser.Scope, is map[string]interface{}, tid uint64, args []interface{}) (interface{}, error) {
	verifOcc--
	return nil, nil
}
func (f *verifLeave) DocString() (string, error) { return "", nil }

// VerifC12Mutex: two threads with distinct ids in `mutex a { ... }`: at most one inside.
func VerifC12Mutex() {
	InbuildFuncMap["enter"] = &verifEnter{}
	InbuildFuncMap["leave"] = &verifLeave{}
	erp := &ECALRuntimeProvider{Name: "t", Logger: util.NewMemoryLogger(10),
		Mutexes: make(map[string]*sync.Mutex), MutexLog: datautil.NewRingBuffer(8),
		MutexeOwners: make(map[string]uint64), MutexesMutex: &sync.Mutex{}}
	ast, err := parser.ParseWithRuntime("t", "mutex a { enter(); leave() }\nmutex a { enter(); leave() }", erp)
	zz.Assert(err == nil, "parse ok")
	zz.Assert(ast.Runtime.Validate() == nil, "validate ok")
	vs := scope.NewScope(scope.GlobalScope)
	t1, t2 := uint64(zz.Int("tid1")), uint64(zz.Int("tid2"))
	zz.Assume(t1 != t2 && t1 < 4 && t2 < 4)
	zz.Schedule(2)
	var wg sync.WaitGroup
	wg.Add(2)
	go func() { ast.Runtime.Eval(vs, make(map[string]interface{}), t1); wg.Done() }()
	go func() { ast.Runtime.Eval(vs, make(map[string]interface{}), t2); wg.Done() }()
	wg.Wait()
	zz.Reach("both-done")
	zz.Assert(verifMaxOcc <= 1, "C12.mutual-exclusion")
}
