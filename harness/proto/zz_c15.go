package interpreter

import (
	"time"

	"github.com/krotik/ecal/parser"
	"github.com/krotik/ecal/scope"
	"github.com/krotik/ecal/util"
	zz "github.com/krotik/ecal/zzverif"
)

// VerifC15Resume: a thread reported as suspended is released by the next continue addressed to it.
func VerifC15Resume() {
	logger := util.NewMemoryLogger(100)
	erp := NewECALRuntimeProvider("t", &util.MemoryImportLocator{Files: map[string]string{}}, logger)
	vs := scope.NewScope(scope.GlobalScope)
	dbg := NewECALDebugger(vs)
	erp.Debugger = dbg
	ast, err := parser.ParseWithRuntime("t", "a := 1\nb := 2\n", erp)
	zz.Assert(err == nil, "parse ok")
	zz.Assert(ast.Runtime.Validate() == nil, "validate ok")
	dbg.SetBreakPoint("t", 2)
	zz.ScheduleEraser(2)
	finished := false
	continued := false
	go func() {
		ast.Runtime.Eval(vs, make(map[string]interface{}), 7)
		finished = true
	}()
	// driver: wait until the thread reports suspension, then resume it once
	for i := 0; i < 50 && !continued; i++ {
		st := dbg.Status().(map[string]interface{})
		threads := st["threads"].(map[string]map[string]interface{})
		if t, ok := threads["7"]; ok {
			if r, ok := t["threadRunning"]; ok && r == false {
				dbg.Continue(7, util.Resume)
				continued = true
			}
		}
		time.Sleep(time.Millisecond)
	}
	zz.Quiesce()
	zz.Reach("quiescent")
	if continued {
		zz.Assert(finished, "C15.continue-releases-suspended-thread")
	}
}
