package parser

import zz "github.com/krotik/ecal/zzverif"

var verifBinOps = []string{"+", "-", "*", "/", "//", "%", "<", "==", "and", "or"}

func verifSameTree(a, b *ASTNode) bool {
	if a == nil || b == nil {
		return a == b
	}
	if a.Name != b.Name || len(a.Children) != len(b.Children) {
		return false
	}
	if a.Token != nil && b.Token != nil && (a.Token.Val != b.Token.Val || a.Token.AllowEscapes != b.Token.AllowEscapes) {
		return false
	}
	for i := range a.Children {
		if !verifSameTree(a.Children[i], b.Children[i]) {
			return false
		}
	}
	return true
}

// VerifC08RoundTrip: a OP1 (b OP2 c) and (a OP1 b) OP2 c survive formatting.
func VerifC08RoundTrip() {
	o1 := zz.Choice("op1", len(verifBinOps))
	o2 := zz.Choice("op2", len(verifBinOps))
	var src string
	if zz.Choice("paren", 2) == 0 {
		src = "a " + verifBinOps[o1] + " (b " + verifBinOps[o2] + " c)"
	} else {
		src = "(a " + verifBinOps[o1] + " b) " + verifBinOps[o2] + " c"
	}
	ast, err := Parse("t", src)
	zz.Assert(err == nil, "parse ok")
	pp, err := PrettyPrint(ast)
	zz.Assert(err == nil, "print ok")
	ast2, err := Parse("t", pp)
	zz.Reach("reparsed")
	zz.Assert(err == nil, "C08.output-parses")
	zz.Assert(verifSameTree(ast, ast2), "C08.same-tree")
}
