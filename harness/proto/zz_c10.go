package engine

import (
	"github.com/krotik/common/sortutil"
	zz "github.com/krotik/ecal/zzverif"
)

func heapOK(h sortutil.IntHeap) bool {
	for i := 1; i < len(h); i++ {
		if h[(i-1)/2] > h[i] {
			return false
		}
	}
	return true
}

func minOf(h sortutil.IntHeap) int {
	m := h[0]
	for _, v := range h {
		if v < m {
			m = v
		}
	}
	return m
}

// VerifC10HeapStep: arbitrary valid IntHeap, up to three RemoveFirst of members; root must stay the minimum.
func VerifC10HeapStep() {
	n := zz.Len("n", 4, 7)
	h := make(sortutil.IntHeap, n)
	for i := range h {
		h[i] = zz.Int("h" + string(rune('0'+i)))
		zz.Assume(h[i] >= 0 && h[i] < 16)
	}
	// distinct priorities (RootMonitor keeps one heap entry per priority)
	for i := range h {
		for j := 0; j < i; j++ {
			zz.Assume(h[i] != h[j])
		}
	}
	zz.Assume(heapOK(h))
	for k := 0; k < 3; k++ {
		idx := zz.Int("r" + string(rune('0'+k)))
		zz.Assume(idx >= 0 && idx < len(h))
		r := h[idx]
		h.RemoveFirst(r)
		zz.Reach("removed")
		zz.Assert(h[0] == minOf(h), "C10.heap-root-is-min")
	}
}
