package engine

import (
	"errors"

	zz "github.com/krotik/ecal/zzverif"
)

// VerifC02Wait: one rule, one event, AddEventAndWait must return after the action ran (and return at all).
func VerifC02Wait() {
	p := NewProcessor(1)
	ran := 0
	fail := zz.Bool("fail")
	p.AddRule(&Rule{Name: "r1", KindMatch: []string{"a.*"}, ScopeMatch: []string{},
		Action: func(p Processor, m Monitor, e *Event, tid uint64) error {
			ran++
			if fail {
				return errors.New("boom")
			}
			return nil
		}})
	zz.Schedule(2)
	p.Start()
	m, err := p.AddEventAndWait(NewEvent("e1", []string{"a", "b"}, nil), nil)
	zz.Reach("returned")
	zz.Assert(err == nil && m != nil, "C02.added")
	zz.Assert(ran == 1, "C02.action-ran-before-return")
	errs := m.(*RootMonitor).AllErrors()
	zz.Assert((len(errs) == 1) == fail, "C02.errors-exact")
}
