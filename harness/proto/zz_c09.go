package pool

import zz "github.com/krotik/ecal/zzverif"

type verifTask struct{ runs int }

func (t *verifTask) Run(tid uint64) error { t.runs++; return nil }
func (t *verifTask) HandleError(e error)  {}

// VerifC09NoLostTask: one worker, one task, no further calls: the task must run exactly once.
func VerifC09NoLostTask() {
	tp := NewThreadPool()
	zz.Schedule(2)
	tp.SetWorkerCount(1, false)
	t := &verifTask{}
	tp.AddTask(t)
	zz.Quiesce()
	zz.Reach("quiescent")
	zz.Assert(t.runs == 1, "C09.task-ran-exactly-once")
}
