package interpreter

import (
	"github.com/krotik/ecal/parser"
	"github.com/krotik/ecal/scope"
	"github.com/krotik/ecal/util"
	zz "github.com/krotik/ecal/zzverif"
)

// VerifC14Arrangement: any arrangement of braces in a quoted literal evaluates to a string, no panic, terminates.
func VerifC14Arrangement() {
	erp := &ECALRuntimeProvider{Name: "t", Logger: util.NewMemoryLogger(10)}
	ast, err := parser.ParseWithRuntime("t", "\"x\"", erp)
	zz.Assert(err == nil, "parse ok")
	n := zz.Len("n", 0, 5)
	lit := zz.Bytes("lit", n)
	for i := range lit {
		zz.Assume(lit[i] == '{' || lit[i] == '}' || lit[i] == 'a')
	}
	ast.Token.Val = string(lit) // quoted literal => AllowEscapes is already true
	ast.Runtime.Validate()
	vs := scope.NewScope(scope.GlobalScope)
	vs.SetValue("a", "{{a}}") // data that looks like code
	zz.Reach("before-eval")
	res, err := ast.Runtime.Eval(vs, make(map[string]interface{}), 1)
	zz.Reach("after-eval")
	_, isStr := res.(string)
	zz.Assert(isStr && err == nil, "C14.yields-string")
}
