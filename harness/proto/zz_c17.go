package util

import (
	"path/filepath"

	zz "github.com/krotik/ecal/zzverif"
)

// VerifC17Clean: probe — how does filepath.Clean/Join/Rel behave under symbolic execution.
func VerifC17Clean() {
	n := zz.Len("n", 0, 4)
	p := zz.Bytes("p", n)
	for i := range p {
		zz.Assume(p[i] == 'a' || p[i] == '.' || p[i] == '/')
	}
	root := "/r"
	joined := filepath.Clean(filepath.Join(root, string(p)))
	ok, err := isSubpath(root, joined)
	zz.Reach("checked")
	if err == nil && ok {
		// oracle: result must be /r or start with /r/
		inside := joined == "/r" || (len(joined) > 2 && joined[:3] == "/r/")
		zz.Assert(inside, "C17.inside-root")
	}
}
