package interpreter

import (
	"github.com/krotik/ecal/parser"
	"github.com/krotik/ecal/scope"
	"github.com/krotik/ecal/util"
	zz "github.com/krotik/ecal/zzverif"
)

// VerifC06Mod: `a % b` with arbitrary numbers must not panic.
func VerifC06Mod() {
	erp := &ECALRuntimeProvider{Name: "t", Logger: util.NewMemoryLogger(10)}
	ast, err := parser.ParseWithRuntime("t", "a % b", erp)
	zz.Assert(err == nil, "parse ok")
	err = ast.Runtime.Validate()
	zz.Assert(err == nil, "validate ok")
	vs := scope.NewScope(scope.GlobalScope)
	vs.SetValue("a", zz.Float64("a"))
	vs.SetValue("b", zz.Float64("b"))
	zz.Reach("before-eval")
	res, err := ast.Runtime.Eval(vs, make(map[string]interface{}), 1)
	zz.Reach("after-eval")
	zz.Assert(res != nil || err != nil, "value or error")
}
