package interpreter

import (
	"math"

	"github.com/krotik/ecal/parser"
	"github.com/krotik/ecal/scope"
	"github.com/krotik/ecal/util"
	zz "github.com/krotik/ecal/zzverif"
)

var verifOps = []string{"+", "-", "*", "/", "//"}
var verifPrec = []int{1, 1, 2, 2, 2}

func verifApply(op int, a, b float64) float64 {
	switch op {
	case 0:
		return a + b
	case 1:
		return a - b
	case 2:
		return a * b
	case 3:
		return a / b
	}
	return math.Floor(a / b)
}

// VerifC03Pairs: x OP1 y OP2 z evaluates per precedence (multiplicative tighter, left associative).
func VerifC03Pairs() {
	erp := &ECALRuntimeProvider{Name: "t", Logger: util.NewMemoryLogger(10)}
	o1 := zz.Choice("op1", len(verifOps))
	o2 := zz.Choice("op2", len(verifOps))
	src := "x " + verifOps[o1] + " y " + verifOps[o2] + " z"
	ast, err := parser.ParseWithRuntime("t", src, erp)
	zz.Assert(err == nil, "parse ok")
	zz.Assert(ast.Runtime.Validate() == nil, "validate ok")
	x, y, z := zz.Float64("x"), zz.Float64("y"), zz.Float64("z")
	vs := scope.NewScope(scope.GlobalScope)
	vs.SetValue("x", x)
	vs.SetValue("y", y)
	vs.SetValue("z", z)
	res, err := ast.Runtime.Eval(vs, make(map[string]interface{}), 1)
	zz.Reach("evaluated")
	var ref float64
	if verifPrec[o1] >= verifPrec[o2] {
		ref = verifApply(o2, verifApply(o1, x, y), z)
	} else {
		ref = verifApply(o1, x, verifApply(o2, y, z))
	}
	got, isNum := res.(float64)
	zz.Assert(err == nil && isNum, "C03.number")
	zz.Assert(zz.SameFloat(got, ref), "C03.value")
}
