package engine

import zz "github.com/krotik/ecal/zzverif"

var verifDigits = "0123456789"

func verifName(i int) string { return "r" + string(verifDigits[i/10]) + string(verifDigits[i%10]) }

// VerifC01Mask: N state rules on one kind, event value symbolic: exactly rule i fires iff v == i.
func VerifC01Mask() {
	n := zz.Len("n", 63, 65)
	ri := NewRuleIndex()
	for i := 0; i < n; i++ {
		ri.AddRule(&Rule{Name: verifName(i), KindMatch: []string{"a"}, ScopeMatch: []string{},
			StateMatch: map[string]interface{}{"k": float64(i)}})
	}
	v := zz.Float64("v")
	res := ri.Match(NewEvent("e", []string{"a"}, map[interface{}]interface{}{"k": v}))
	zz.Reach("matched")
	for i := 0; i < n; i++ {
		cnt := 0
		for _, r := range res {
			if r.Name == verifName(i) {
				cnt++
			}
		}
		want := 0
		if v == float64(i) {
			want = 1
		}
		zz.Assert(cnt == want, "C01.exactly-matching-rules")
	}
}
