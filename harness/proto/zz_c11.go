package interpreter

import (
	"github.com/krotik/ecal/engine"
	"github.com/krotik/ecal/parser"
	"github.com/krotik/ecal/scope"
	"github.com/krotik/ecal/util"
	zz "github.com/krotik/ecal/zzverif"
)

// VerifC11Sinks: two events on two workers, each invocation's failure goes to its own event.
func VerifC11Sinks() {
	logger := util.NewMemoryLogger(100)
	erp := NewECALRuntimeProvider("t", &util.MemoryImportLocator{Files: map[string]string{}}, logger)
	erp.Processor = engine.NewProcessor(2)
	erp.Processor.SetFailOnFirstErrorInTriggerSequence(true)
	src := "sink s1\n  kindmatch [ \"a.b\" ],\n  {\n    if event.state.fail {\n      raise(\"E\", event.state.id)\n    }\n  }\n"
	ast, err := parser.ParseWithRuntime("t", src, erp)
	zz.Assert(err == nil, "parse ok")
	zz.Assert(ast.Runtime.Validate() == nil, "validate ok")
	vs := scope.NewScope(scope.GlobalScope)
	_, err = ast.Runtime.Eval(vs, make(map[string]interface{}), erp.NewThreadID())
	zz.Assert(err == nil, "sink declared")
	proc := erp.Processor
	f1, f2 := zz.Bool("f1"), zz.Bool("f2")
	zz.ScheduleEraser(1)
	proc.Start()
	m1 := proc.NewRootMonitor(nil, nil)
	m2 := proc.NewRootMonitor(nil, nil)
	proc.AddEvent(engine.NewEvent("e1", []string{"a", "b"}, map[interface{}]interface{}{"fail": f1, "id": "one"}), m1)
	proc.AddEvent(engine.NewEvent("e2", []string{"a", "b"}, map[interface{}]interface{}{"fail": f2, "id": "two"}), m2)
	zz.Quiesce()
	zz.Reach("quiescent")
	zz.Assert(m1.IsFinished() && m2.IsFinished(), "C11.both-cascades-finished")
	zz.Assert((len(m1.AllErrors()) == 1) == f1, "C11.e1-own-outcome")
	zz.Assert((len(m2.AllErrors()) == 1) == f2, "C11.e2-own-outcome")
}
