package parser

import zz "github.com/krotik/ecal/zzverif"

var verifTexts = []string{"a", "1", "\"s\"", "(", ")", "{", "}", ";", "+", ":=", "if", "\n"}

func verifWellFormed(n *ASTNode) bool {
	if n == nil || n.Name == "" {
		return false
	}
	for _, c := range n.Children {
		if !verifWellFormed(c) {
			return false
		}
	}
	return true
}

// VerifC07Tokens: K representative tokens through the real lexer and parser.
func VerifC07Tokens() {
	k := zz.Len("k", 1, 3)
	src := ""
	for i := 0; i < k; i++ {
		c := zz.Choice("t"+string(rune('0'+i)), len(verifTexts))
		src += verifTexts[c] + " "
	}
	ast, err := Parse("h", src)
	zz.Reach("parsed")
	zz.Assert((ast == nil) != (err == nil), "C07.tree-xor-error")
	if err == nil {
		zz.Assert(verifWellFormed(ast), "C07.well-formed")
	}
}
