package interpreter

import (
	"github.com/krotik/ecal/scope"
	zz "github.com/krotik/ecal/zzverif"
)

var verifCmds = []string{"status", "lockstate", "breakonstart", "break", "rmbreak", "disablebreak", "cont", "describe", "extract", "inject", "bogus"}
var verifArgs = []string{"", "1", "-1", "99999999999999999999", "t:5", "t:", ":5", "t", "stepout", "resume", "a", "1+"}

// VerifC16Total: any command line on a fresh debugger returns; it never panics.
func VerifC16Total() {
	dbg := NewECALDebugger(scope.NewScope(scope.GlobalScope))
	line := verifCmds[zz.Choice("cmd", len(verifCmds))]
	na := zz.Len("nargs", 0, 2)
	for i := 0; i < na; i++ {
		line += " " + verifArgs[zz.Choice("a"+string(rune('0'+i)), len(verifArgs))]
	}
	_, _ = dbg.HandleInput(line)
	zz.Reach("returned")
	_, err := dbg.HandleInput("status")
	zz.Assert(err == nil, "C16.still-answering")
}
