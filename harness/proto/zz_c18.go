package parser

import zz "github.com/krotik/ecal/zzverif"

// refLineCol recomputes line and column (bytes, from 1) of byte offset pos.
func refLineCol(src []byte, pos int) (int, int) {
	line, col := 1, 1
	for i := 0; i < pos && i < len(src); i++ {
		if src[i] == '\n' {
			line++
			col = 1
		} else {
			col++
		}
	}
	return line, col
}

func VerifC18LexPositions() {
	n := zz.Len("n", 0, 3)
	src := zz.Bytes("src", n)
	for i := range src {
		zz.Assume(src[i] < 0x80) // prototype: ASCII
	}
	toks := LexToList("h", string(src))
	zz.Reach("lexed")
	for _, t := range toks {
		if t.ID == TokenEOF || t.ID == TokenError {
			continue
		}
		line, col := refLineCol(src, t.Pos)
		zz.Assert(t.Lline == line && t.Lpos == col, "C18.pos")
	}
}
