package parser

import (
	"sync"

	zz "github.com/krotik/ecal/zzverif"
)

// VerifC13Reentrant: two concurrent parses give what each gives alone.
func VerifC13Reentrant() {
	srcA := "if a { b }"
	srcB := "x := {1:2}"
	_, seqA := Parse("a", srcA)
	_, seqB := Parse("b", srcB)
	zz.Assert(seqA == nil && seqB == nil, "sequential parses succeed")
	zz.ScheduleRacy(2)
	var wg sync.WaitGroup
	wg.Add(2)
	var e1, e2 error
	go func() { _, e1 = Parse("a", srcA); wg.Done() }()
	go func() { _, e2 = Parse("b", srcB); wg.Done() }()
	wg.Wait()
	zz.Reach("both-done")
	zz.Assert(e1 == nil && e2 == nil, "C13.same-as-sequential")
}
