package tool

import (
	"archive/zip"
	"bytes"
	"io"
	"os"
	"path/filepath"
	"time"

	zz "github.com/krotik/ecal/zzverif"
)

// in-memory file standing for the packed executable in the symbolic run
var c20Content []byte
var c20Off int
var c20Pos int64 = -1
var c20Size int64 = -1

type c20Info struct{ size int64 }

func (i c20Info) Name() string       { return "bin" }
func (i c20Info) Size() int64        { return i.size }
func (i c20Info) Mode() os.FileMode  { return 0755 }
func (i c20Info) ModTime() time.Time { return time.Time{} }
func (i c20Info) IsDir() bool        { return false }
func (i c20Info) Sys() interface{}   { return nil }

func c20Abs(p string) (string, error)          { return p, nil }
func c20Exists(p string) (bool, error)         { return true, nil }
func c20Stat(name string) (os.FileInfo, error) { return c20Info{int64(len(c20Content))}, nil }
func c20Open(name string) (*os.File, error)    { return nil, nil }
func c20Read(f *os.File, b []byte) (int, error) {
	if c20Off >= len(c20Content) {
		return 0, io.EOF
	}
	n := copy(b, c20Content[c20Off:])
	c20Off += n
	return n, nil
}
func c20Seek(f *os.File, off int64, whence int) (int64, error) { c20Off = int(off); return off, nil }
func c20Close(f *os.File) error                               { return nil }
func c20Section(r io.ReaderAt, off, n int64) *io.SectionReader { return nil }
func c20Run(reader io.ReaderAt, size int64) (interface{}, error) {
	c20Size = size
	return 0.0, nil
}

// VerifC20Scan: for every binary length n in [LO,HI] (two periods of the scanner's buffer geometry with the block
// size b1 shrunk to 8) and every filler over {x, #, newline}, RunPackedBinary locates the archive exactly at the first
// byte after the marker and starts the embedded program.
func VerifC20Scan() {
	b1 = zz.Param("B1", 8)
	n := zz.Len("n", zz.Param("LO", 0), zz.Param("HI", 12))
	filler := zz.Bytes("fill", n)
	for i := range filler {
		zz.Assume(zz.OneOf(filler[i], "x#\n"))
	}
	if zz.Native() {
		c20Native(filler)
		return
	}
	archive := []byte{'P', 'K', 3, 4}
	c20Content = append(append(append([]byte(nil), filler...), []byte(packmarker)...), archive...)
	c20Off, c20Size = 0, -1
	zz.Replace("path/filepath.Abs", c20Abs)
	zz.Replace("github.com/krotik/common/fileutil.PathExists", c20Exists)
	zz.Replace("os.Stat", c20Stat)
	zz.Replace("os.Open", c20Open)
	zz.Replace("(*os.File).Read", c20Read)
	zz.Replace("(*os.File).Seek", c20Seek)
	zz.Replace("(*os.File).Close", c20Close)
	zz.Replace("io.NewSectionReader", c20Section)
	zz.Replace("github.com/krotik/ecal/cli/tool.runInterpreter", c20Run)
	osArgs = []string{"bin"}
	exited := false
	osExit = func(c int) { exited = true }
	handleError = func(e error) {}
	RunPackedBinary()
	zz.Reach("scanned")
	zz.Assert(exited && c20Size == int64(len(archive)), "C20.embedded-archive-found-and-started")
}

// c20Native: the same geometry against the real file system: a real file (filler + marker + real zip archive with an
// entry program) is scanned by the real RunPackedBinary with the real zip reader and interpreter.
func c20Native(filler []byte) {
	tmp, err := os.MkdirTemp("", "c20")
	if err != nil {
		panic(err)
	}
	defer os.RemoveAll(tmp)
	var zbuf bytes.Buffer
	w := zip.NewWriter(&zbuf)
	f, _ := w.Create(".ecalsrc-entry")
	f.Write([]byte("0"))
	w.Close()
	content := append(append(append([]byte(nil), filler...), []byte(packmarker)...), zbuf.Bytes()...)
	bin := filepath.Join(tmp, "bin")
	if err := os.WriteFile(bin, content, 0755); err != nil {
		panic(err)
	}
	osArgs = []string{bin}
	exited := false
	osExit = func(c int) { exited = true }
	handleError = func(e error) {}
	RunPackedBinary()
	zz.Assert(exited, "C20.embedded-archive-found-and-started")
}
