package tool

import (
	"archive/zip"
	"bytes"
	"io"
	"os"
	"path/filepath"
	"time"

	zz "github.com/krotik/ecal/zzverif"
)

// in-memory file standing for the packed executable in the symbolic run
var c20Content []byte
var c20Off int
var c20Pos int64 = -1
var c20Size int64 = -1

type c20Info struct{ size int64 }

func (i c20Info) Name() string       { return "bin" }
func (i c20Info) Size() int64        { return i.size }
func (i c20Info) Mode() os.FileMode  { return 0755 }
func (i c20Info) ModTime() time.Time { return time.Time{} }
func (i c20Info) IsDir() bool        { return false }
func (i c20Info) Sys() interface{}   { return nil }

func c20Abs(p string) (string, error)          { return p, nil }
func c20Exists(p string) (bool, error)         { return true, nil }
func c20Stat(name string) (os.FileInfo, error) { return c20Info{int64(len(c20Content))}, nil }
func c20Open(name string) (*os.File, error)    { return nil, nil }
func c20Read(f *os.File, b []byte) (int, error) {
	if c20Off >= len(c20Content) {
		return 0, io.EOF
	}
	n := copy(b, c20Content[c20Off:])
	c20Off += n
	return n, nil
}
func c20Seek(f *os.File, off int64, whence int) (int64, error) {
	c20Off = int(off)
	return off, nil
}
func c20Close(f *os.File) error                               { return nil }
func c20Section(r io.ReaderAt, off, n int64) *io.SectionReader { return nil }
func c20Run(reader io.ReaderAt, size int64) (interface{}, error) {
	c20Size = size
	return 0.0, nil
}

// VerifC20Scan: for every binary length n in [LO,HI] (two periods of the scanner's buffer geometry with the block
// size b1 shrunk to 8) and every filler over {x, #, newline}, RunPackedBinary locates the archive exactly at the first
// byte after the marker and starts the embedded program.
func VerifC20Scan() {
	b1 = zz.Param("B1", 8)
	n := zz.Len("n", zz.Param("LO", 0), zz.Param("HI", 12))
	filler := zz.Bytes("fill", n)
	for i := range filler {
		zz.Assume(zz.OneOf(filler[i], "x#\n"))
	}
	if zz.Native() {
		c20Native(filler)
		return
	}
	archive := []byte{'P', 'K', 3, 4}
	c20Content = append(append(append([]byte(nil), filler...), []byte(packmarker)...), archive...)
	c20Off, c20Size = 0, -1
	zz.Replace("path/filepath.Abs", c20Abs)
	zz.Replace("github.com/krotik/common/fileutil.PathExists", c20Exists)
	zz.Replace("os.Stat", c20Stat)
	zz.Replace("os.Open", c20Open)
	zz.Replace("(*os.File).Read", c20Read)
	zz.Replace("(*os.File).Seek", c20Seek)
	zz.Replace("(*os.File).Close", c20Close)
	zz.Replace("io.NewSectionReader", c20Section)
	zz.Replace("github.com/krotik/ecal/cli/tool.runInterpreter", c20Run)
	osArgs = []string{"bin"}
	exited := false
	osExit = func(c int) { exited = true }
	handleError = func(e error) {}
	RunPackedBinary()
	zz.Reach("scanned")
	zz.Assert(exited && c20Size == int64(len(archive)), "C20.embedded-archive-found-and-started")
}

// c20Native: the same geometry against the real file system: a real file (filler + marker + real zip archive with an
// entry program) is scanned by the real RunPackedBinary with the real zip reader and interpreter.
func c20Native(filler []byte) {
	tmp, err := os.MkdirTemp("", "c20")
	if err != nil {
		panic(err)
	}
	defer os.RemoveAll(tmp)
	var zbuf bytes.Buffer
	w := zip.NewWriter(&zbuf)
	f, _ := w.Create(".ecalsrc-entry")
	f.Write([]byte("0"))
	w.Close()
	content := append(append(append([]byte(nil), filler...), []byte(packmarker)...), zbuf.Bytes()...)
	bin := filepath.Join(tmp, "bin")
	if err := os.WriteFile(bin, content, 0755); err != nil {
		panic(err)
	}
	osArgs = []string{bin}
	exited := false
	osExit = func(c int) { exited = true }
	handleError = func(e error) {}
	RunPackedBinary()
	zz.Assert(exited, "C20.embedded-archive-found-and-started")
}

// ---- project tree harness ----

type c20Ent struct {
	name string
	dir  bool
	size int64
}

func (e c20Ent) Name() string       { return e.name }
func (e c20Ent) Size() int64        { return e.size }
func (e c20Ent) Mode() os.FileMode  { return 0644 }
func (e c20Ent) ModTime() time.Time { return time.Time{} }
func (e c20Ent) IsDir() bool        { return e.dir }
func (e c20Ent) Sys() interface{}   { return nil }

var c20Files map[string][]byte     // modelled project tree: file path -> content
var c20Dirs map[string][]c20Ent    // directory path -> entries in name order
var c20Source []byte               // the interpreter binary that is packed

func c20ReadDir(dir string) ([]os.FileInfo, error) {
	ents, ok := c20Dirs[dir]
	if !ok {
		return nil, os.ErrNotExist
	}
	var res []os.FileInfo
	for _, e := range ents {
		res = append(res, e)
	}
	return res, nil
}
func c20ReadFile(name string) ([]byte, error) {
	b, ok := c20Files[name]
	if !ok {
		return nil, os.ErrNotExist
	}
	return append([]byte(nil), b...), nil
}
func c20Create(name string) (*os.File, error) { c20Content = nil; return nil, nil }
func c20Copy(dst io.Writer, src io.Reader) (int64, error) {
	c20Content = append(c20Content, c20Source...)
	return int64(len(c20Source)), nil
}
func c20Write(f *os.File, b []byte) (int, error) {
	c20Content = append(c20Content, b...)
	return len(b), nil
}
func c20WriteString(f *os.File, s string) (int, error) {
	c20Content = append(c20Content, s...)
	return len(s), nil
}
func c20Chmod(name string, m os.FileMode) error { return nil }
func c20SectionReal(r io.ReaderAt, off, n int64) *io.SectionReader {
	if _, isFile := r.(*os.File); !isFile {
		return io.NewSectionReader(r, off, n) // a section of something else (the zip reader makes its own)
	}
	return io.NewSectionReader(bytes.NewReader(c20Content), off, n)
}
// The deflate codec is replaced by an identity codec in the symbolic run; what is kept of it is the io.Reader
// contract: a Read of the "decompressor" delivers at most c20Chunk bytes however large the buffer is (the real
// inflater delivers at most its 32 KiB window per call).
var c20Chunk = 7

type c20NopWriter struct{ w io.Writer }

func (n c20NopWriter) Write(p []byte) (int, error) { return n.w.Write(p) }
func (n c20NopWriter) Close() error                { return nil }

type c20ShortReader struct{ r io.Reader }

func (s c20ShortReader) Read(p []byte) (int, error) {
	if len(p) > c20Chunk {
		p = p[:c20Chunk]
	}
	return s.r.Read(p)
}
func (s c20ShortReader) Close() error { return nil }

func c20Compressor(method uint16) zip.Compressor {
	return func(w io.Writer) (io.WriteCloser, error) { return c20NopWriter{w}, nil }
}
func c20Decompressor(method uint16) zip.Decompressor {
	return func(r io.Reader) io.ReadCloser { return c20ShortReader{r} }
}

// c20Module: an ECAL source of exactly size bytes (size >= 16) defining v (a string of size-16 bytes) and t (= id).
func c20Module(id, size int) []byte {
	b := []byte("v := \"")
	for i := 0; i < size-16; i++ {
		b = append(b, byte('a'+(i*i/7+i/3+id)%26))
	}
	b = append(b, "\"\nt := "...)
	b = append(b, byte('0'+id), '\n')
	return b
}

var c20Sizes = []int{16, 17, 22, 23, 24, 64, 200, 600}

// VerifC20Tree: the real Pack (packFiles over a modelled project tree, real zip writer and deflate) appends marker and
// archive to a source binary; the real RunPackedBinary scans the result, unpacks it with the real zip reader into the
// import locator and runs the entry file, whose exit code is the sum of every module's tag and string length read back
// through imports by relative path.  Tree shape (same base name in two directories, nesting, empty file, empty
// directory, binary file), the size class of the large module and the source-binary length are symbolic choices.
func VerifC20Tree() {
	shape := zz.Choice("shape", 4)
	big := c20Sizes[zz.Choice("size", zz.Param("SIZES", 6))]
	c20Chunk = zz.Param("CHUNK", 7)
	srcLen := []int{0, 5, 4090}[zz.Choice("binlen", 3)]
	repack := zz.Param("REPACK", 0) == 1 && zz.Bool("targetHoldsAnEarlierLargerPack")
	sp := zz.Choice("dirSpelling", zz.Param("SPELLINGS", 1)) // how the user spells the project directory
	type fileT struct {
		path string
		id   int
		size int
	}
	var files []fileT
	switch shape {
	case 0:
		files = []fileT{{"a.ecal", 1, big}}
	case 1:
		files = []fileT{{"a.ecal", 1, big}, {"d/a.ecal", 2, 40}}
	case 2:
		files = []fileT{{"a.ecal", 1, 33}, {"d/e/b.ecal", 2, big}, {"d/empty.ecal", 0, 0}}
	case 3:
		files = []fileT{{"a.ecal", 1, big}, {"z.bin", 0, -1}, {"d/e/f/c.ecal", 3, 16}}
	}
	if zz.Native() {
		// the native run uses the real deflate codec, whose reader delivers at most its 32 KiB window per Read: sizes
		// are scaled so that a module longer than the model's chunk is longer than that window
		for i := range files {
			if files[i].size > 0 {
				files[i].size *= 32768/c20Chunk + 1
			}
		}
	}
	entry := ""
	want := 0
	checks := ""
	ret := "bad"
	for i, f := range files {
		if f.size > 0 {
			n := string(rune('0' + i))
			m := c20Module(f.id, f.size)
			entry += "import \"" + f.path + "\" as f" + n + "\n"
			checks += "if f" + n + ".v != " + string(m[5:f.size-9]) + " {\n    bad := 9999\n}\n"
			ret += " + f" + n + ".t"
			want += f.id
		}
	}
	entry += "bad := 0\n" + checks + ret + "\n"
	content := func(f fileT) []byte {
		switch {
		case f.size > 0:
			return c20Module(f.id, f.size)
		case f.size == 0:
			return []byte{}
		}
		return []byte{0, 1, 2, 0xff, 0xfe, '#', '\n', 0x80, 'P', 'K', 3, 4}
	}
	if zz.Native() {
		c20NativeTree(srcLen, entry, want, func(put func(string, []byte)) {
			for _, f := range files {
				put(f.path, content(f))
			}
		}, shape == 3, repack, sp)
		return
	}
	memReset()
	memPut("root/main.ecal", []byte(entry), 0644)
	for _, f := range files {
		memPut("root/"+f.path, content(f), 0644)
	}
	if shape == 3 {
		memMkdir("root/hollow")
	}
	c20Source = make([]byte, srcLen)
	for i := range c20Source {
		c20Source[i] = "x#\n"[i%3]
	}
	memPut("src.bin", c20Source, 0755)
	memInstall()
	zz.Replace("archive/zip.compressor", c20Compressor)
	zz.Replace("archive/zip.decompressor", c20Decompressor)
	if repack {
		// the target already holds the result of packing another, larger project
		memPut("root0/main.ecal", []byte("import \"big.ecal\" as b\n70 + b.t\n"), 0644)
		memPut("root0/big.ecal", c20Module(7, 600), 0644)
		dir0, src0, target0 := "root0", "src.bin", "out.bin"
		var log0 bytes.Buffer
		p0 := &CLIPacker{EntryFile: "root0/main.ecal", Dir: &dir0, SourceBinary: &src0, TargetBinary: &target0, LogOut: &log0}
		zz.Assert(p0.Pack() == nil, "C20.pack-succeeds")
	}
	// the project directory as the user may spell it (the archive holds paths relative to it, whatever the spelling)
	dir := []string{"root", "root/", "./root", "root/../root", "root/."}[sp]
	src, target := "src.bin", "out.bin"
	var log bytes.Buffer
	p := &CLIPacker{EntryFile: "root/main.ecal", Dir: &dir, SourceBinary: &src, TargetBinary: &target, LogOut: &log}
	err := p.Pack()
	zz.Reach("packed")
	zz.Assert(err == nil, "C20.pack-succeeds")
	c20Off = 0
	osArgs = []string{"out.bin"}
	exited, code := false, -1
	osExit = func(c int) { exited, code = true, c }
	var herr error
	handleError = func(e error) { herr = e }
	osStderr = &log
	RunPackedBinary()
	zz.Reach("ran")
	if herr != nil {
		println("C20 tree: handleError:", herr.Error())
	}
	if !exited || code != want {
		println("C20 tree: exited", exited, "code", code, "want", want, "log:", log.String())
	}
	zz.Assert(herr == nil && exited, "C20.embedded-program-found-and-run")
	zz.Assert(code == want, "C20.every-packed-file-recovered-under-its-relative-path")
}

// c20NativeTree: the same tree on the real file system with the real Pack and RunPackedBinary.
func c20NativeTree(srcLen int, entry string, want int, fill func(put func(string, []byte)), hollow bool, repack bool, sp int) {
	tmp, err := os.MkdirTemp("", "c20t")
	if err != nil {
		panic(err)
	}
	defer os.RemoveAll(tmp)
	root := filepath.Join(tmp, "root")
	os.MkdirAll(root, 0755)
	os.WriteFile(filepath.Join(root, "main.ecal"), []byte(entry), 0644)
	fill(func(p string, c []byte) {
		os.MkdirAll(filepath.Dir(filepath.Join(root, p)), 0755)
		os.WriteFile(filepath.Join(root, p), c, 0644)
	})
	if hollow {
		os.MkdirAll(filepath.Join(root, "hollow"), 0755)
	}
	srcb := make([]byte, srcLen)
	for i := range srcb {
		srcb[i] = "x#\n"[i%3]
	}
	src, target := filepath.Join(tmp, "src.bin"), filepath.Join(tmp, "out.bin")
	os.WriteFile(src, srcb, 0755)
	var log bytes.Buffer
	if repack {
		root0 := filepath.Join(tmp, "root0")
		os.MkdirAll(root0, 0755)
		os.WriteFile(filepath.Join(root0, "main.ecal"), []byte("import \"big.ecal\" as b\n70 + b.t\n"), 0644)
		os.WriteFile(filepath.Join(root0, "big.ecal"), c20Module(7, 600*(32768/c20Chunk+1)), 0644)
		p0 := &CLIPacker{EntryFile: filepath.Join(root0, "main.ecal"), Dir: &root0, SourceBinary: &src, TargetBinary: &target, LogOut: &log}
		zz.Assert(p0.Pack() == nil, "C20.pack-succeeds")
	}
	spelled := []string{root, root + "/", tmp + "/./root", root + "/../root", root + "/."}[sp]
	p := &CLIPacker{EntryFile: filepath.Join(root, "main.ecal"), Dir: &spelled, SourceBinary: &src, TargetBinary: &target, LogOut: &log}
	zz.Assert(p.Pack() == nil, "C20.pack-succeeds")
	osArgs = []string{target}
	exited, code := false, -1
	osExit = func(c int) { exited, code = true, c }
	var herr error
	handleError = func(e error) { herr = e }
	osStderr = &log
	RunPackedBinary()
	if code != want || herr != nil {
		println("C20 native tree: code", code, "want", want, "exited", exited, "log:", log.String())
		if herr != nil {
			println("error:", herr.Error())
		}
	}
	zz.Assert(herr == nil && exited, "C20.embedded-program-found-and-run")
	zz.Assert(code == want, "C20.every-packed-file-recovered-under-its-relative-path")
}
