package tool

import (
	"bytes"
	"flag"
	"os"
	"path/filepath"

	"github.com/krotik/ecal/parser"
	zz "github.com/krotik/ecal/zzverif"
)

// formatted programs (what PrettyPrint prints for them is themselves) used as the core of the files to format
var c08Cores = []string{
	"a := 1",
	"if a {\n    b := 1\n}",
	"func f(x) {\n    return x\n}\nf(1)",
	"for i in [1, 2] {\n    log(i)\n}",
}

// c08SameTree: same node kinds, token values, string kinds and nesting (positions, comments and blank lines ignored).
func c08SameTree(a, b *parser.ASTNode) bool {
	if a.Name != b.Name || len(a.Children) != len(b.Children) {
		return false
	}
	if (a.Token == nil) != (b.Token == nil) {
		return false
	}
	if a.Token != nil && (a.Token.Val != b.Token.Val || a.Token.AllowEscapes != b.Token.AllowEscapes || a.Token.ID != b.Token.ID) {
		return false
	}
	for i := range a.Children {
		if !c08SameTree(a.Children[i], b.Children[i]) {
			return false
		}
	}
	return true
}

// VerifC08FormatFiles: the in-place format tool over a small directory tree: an ECAL file whose text is a formatted
// core program with symbolic padding (leading blank lines, extra indentation, trailing blanks and blank lines - so that
// the formatted text is shorter than, as long as, or longer than the original), a second ECAL file in a sub directory,
// a file that does not parse and a file with another extension.  Afterwards every ECAL file that parsed holds text that
// parses to the same tree and equals the pretty-printed original; the other files are byte-identical; file modes are
// kept; a second run changes nothing.
func VerifC08FormatFiles() {
	core := c08Cores[zz.Choice("core", len(c08Cores))]
	lead := zz.Choice("leadingBlankLines", 3)
	indent := zz.Choice("extraIndent", 3) * 6
	trail := zz.Choice("trailingBlankLines", 4)
	spaces := zz.Choice("trailingSpaces", 3)
	compact := zz.Bool("compact")
	src := ""
	for i := 0; i < lead; i++ {
		src += "\n"
	}
	for i := 0; i < len(core); i++ {
		c := core[i : i+1]
		if compact && c == " " && i > 0 && core[i-1:i] != " " && core[i-1:i] != "\n" && (core[i+1:i+2] == ":" || core[i-1:i] == "=" || core[i-1:i] == ",") {
			continue // "a := 1" -> "a:=1": the formatted text is longer than the original
		}
		src += c
		if c == "\n" && i+1 < len(core) && core[i+1:i+2] == " " {
			for j := 0; j < indent; j++ {
				src += " "
			}
		}
	}
	for i := 0; i < spaces; i++ {
		src += " "
	}
	for i := 0; i < trail; i++ {
		src += "\n"
	}
	other := "x:=[1,2]\n\n\n"
	broken := "a := (\n\n\n"
	mode := []os.FileMode{0644, 0600}[zz.Choice("mode", 2)]
	files := map[string]string{"root/a.ecal": src, "root/d/b.ecal": other, "root/d/broken.ecal": broken, "root/notes.txt": src}
	root := "root"
	var read func(p string) (string, os.FileMode)
	if zz.Native() {
		tmp, err := os.MkdirTemp("", "c08f")
		if err != nil {
			panic(err)
		}
		defer os.RemoveAll(tmp)
		for p, c := range files {
			os.MkdirAll(filepath.Dir(filepath.Join(tmp, p)), 0755)
			os.WriteFile(filepath.Join(tmp, p), []byte(c), mode)
			os.Chmod(filepath.Join(tmp, p), mode)
		}
		root = filepath.Join(tmp, "root")
		read = func(p string) (string, os.FileMode) {
			b, _ := os.ReadFile(filepath.Join(tmp, p))
			st, _ := os.Stat(filepath.Join(tmp, p))
			return string(b), st.Mode().Perm()
		}
	} else {
		memReset()
		for p, c := range files {
			memPut(p, []byte(c), mode)
		}
		memInstall()
		read = func(p string) (string, os.FileMode) { return string(memFS[p].data), memFS[p].mode }
	}
	// messages of the tool go to the output of the command line flag set
	var msgs bytes.Buffer
	flag.CommandLine = flag.NewFlagSet("ecal", flag.ContinueOnError)
	flag.CommandLine.SetOutput(&msgs)
	err := FormatFiles(root, ".ecal")
	zz.Reach("formatted")
	zz.Assert(err == nil, "C08.format-tool-succeeds")
	check := func(label string) {
		for p, orig := range files {
			now, m := read(p)
			zz.Assert(m == mode, "C08.format-tool-keeps-the-file-mode")
			ast0, perr := parser.Parse("orig", orig)
			if perr != nil || filepath.Ext(p) != ".ecal" {
				zz.Assert(now == orig, "C08.format-tool-leaves-other-files-alone")
				continue
			}
			ast1, perr1 := parser.Parse("formatted", now)
			zz.Assert(perr1 == nil, "C08.formatted-file-parses")
			if perr1 != nil {
				continue
			}
			zz.Assert(c08SameTree(ast0, ast1), "C08.formatted-file-has-the-same-tree")
			pp, _ := parser.PrettyPrint(ast0)
			zz.Assert(now == pp+"\n", label)
		}
	}
	check("C08.formatted-file-is-the-pretty-printed-original")
	err = FormatFiles(root, ".ecal")
	zz.Assert(err == nil, "C08.format-tool-succeeds")
	check("C08.format-tool-is-idempotent")
	zz.Reach("formatted-twice")
}
