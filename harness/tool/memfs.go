package tool

import (
	zz "github.com/krotik/ecal/zzverif"
	"io"
	"os"
	"path/filepath"
	"sort"
	"strings"
	"time"
)

// An in-memory file system standing in for the operating system in symbolic runs.  Only the lowest layer is replaced
// (os.OpenFile, the methods of *os.File, os.Stat/Lstat/Readlink/Chmod/MkdirAll, ioutil.ReadDir); everything above it -
// os.Create, os.Open, os.ReadFile / ioutil.ReadFile, os.WriteFile / ioutil.WriteFile, io.Copy, filepath.Walk - is the
// real library code, interpreted.  OpenFile follows open(2): O_CREATE creates, O_EXCL fails on an existing file,
// O_TRUNC empties, otherwise an existing file keeps its content and writes overwrite from the handle's offset
// (O_APPEND: from the end).

type memFile struct {
	data []byte
	mode os.FileMode
	dir  bool
}

type memHandle struct {
	name   string
	off    int
	flag   int
	closed bool
}

var memFS map[string]*memFile
var memHandles map[*os.File]*memHandle

type memInfo struct {
	name string
	f    *memFile
}

func (i memInfo) Name() string { return i.name }
func (i memInfo) Size() int64  { return int64(len(i.f.data)) }
func (i memInfo) Mode() os.FileMode {
	if i.f.dir {
		return i.f.mode | os.ModeDir
	}
	return i.f.mode
}
func (i memInfo) ModTime() time.Time { return time.Time{} }
func (i memInfo) IsDir() bool        { return i.f.dir }
func (i memInfo) Sys() interface{}   { return nil }

func memBase(p string) string {
	if i := strings.LastIndex(p, "/"); i >= 0 {
		return p[i+1:]
	}
	return p
}

func memReset() {
	memFS = map[string]*memFile{}
	memHandles = map[*os.File]*memHandle{}
}

// memPut creates a file and every directory above it.
func memPut(path string, data []byte, mode os.FileMode) {
	for i := 0; i < len(path); i++ {
		if path[i] == '/' && i > 0 {
			if _, ok := memFS[path[:i]]; !ok {
				memFS[path[:i]] = &memFile{dir: true, mode: 0755}
			}
		}
	}
	memFS[path] = &memFile{data: data, mode: mode}
}

func memMkdir(path string) {
	memPut(path+"/x", nil, 0)
	delete(memFS, path+"/x")
}

func memErr(op, path string, err error) error { return &os.PathError{Op: op, Path: path, Err: err} }

// memKey: the file system resolves "." / ".." segments, repeated and trailing separators
func memKey(p string) string { return filepath.Clean(p) }

func memOpenFile(name string, flag int, perm os.FileMode) (*os.File, error) {
	name = memKey(name)
	f, ok := memFS[name]
	switch {
	case !ok && flag&os.O_CREATE == 0:
		return nil, memErr("open", name, os.ErrNotExist)
	case ok && flag&os.O_CREATE != 0 && flag&os.O_EXCL != 0:
		return nil, memErr("open", name, os.ErrExist)
	case !ok:
		if i := strings.LastIndex(name, "/"); i > 0 {
			if d, okd := memFS[name[:i]]; !okd || !d.dir {
				return nil, memErr("open", name, os.ErrNotExist)
			}
		}
		f = &memFile{mode: perm}
		memFS[name] = f
	}
	if f.dir && flag&(os.O_WRONLY|os.O_RDWR) != 0 {
		return nil, memErr("open", name, os.ErrInvalid)
	}
	if flag&os.O_TRUNC != 0 && !f.dir {
		f.data = nil
	}
	h := new(os.File)
	memHandles[h] = &memHandle{name: name, flag: flag}
	return h, nil
}

func memH(f *os.File) (*memHandle, *memFile, error) {
	h, ok := memHandles[f]
	if !ok || h.closed {
		return nil, nil, os.ErrClosed
	}
	return h, memFS[h.name], nil
}

func memRead(f *os.File, b []byte) (int, error) {
	h, mf, err := memH(f)
	if err != nil {
		return 0, err
	}
	if h.flag&os.O_WRONLY != 0 {
		return 0, memErr("read", h.name, os.ErrPermission)
	}
	if h.off >= len(mf.data) {
		if len(b) == 0 {
			return 0, nil
		}
		return 0, io.EOF
	}
	n := copy(b, mf.data[h.off:])
	h.off += n
	return n, nil
}

func memReadAt(f *os.File, b []byte, off int64) (int, error) {
	_, mf, err := memH(f)
	if err != nil {
		return 0, err
	}
	if int(off) >= len(mf.data) {
		return 0, io.EOF
	}
	n := copy(b, mf.data[off:])
	if n < len(b) {
		return n, io.EOF
	}
	return n, nil
}

func memWrite(f *os.File, b []byte) (int, error) {
	h, mf, err := memH(f)
	if err != nil {
		return 0, err
	}
	if h.flag&(os.O_WRONLY|os.O_RDWR) == 0 {
		return 0, memErr("write", h.name, os.ErrPermission)
	}
	if h.flag&os.O_APPEND != 0 {
		h.off = len(mf.data)
	}
	for len(mf.data) < h.off {
		mf.data = append(mf.data, 0)
	}
	n := copy(mf.data[h.off:], b)
	mf.data = append(mf.data, b[n:]...)
	h.off += len(b)
	return len(b), nil
}

func memWriteString(f *os.File, s string) (int, error) { return memWrite(f, []byte(s)) }

func memSeek(f *os.File, off int64, whence int) (int64, error) {
	h, mf, err := memH(f)
	if err != nil {
		return 0, err
	}
	switch whence {
	case io.SeekStart:
		h.off = int(off)
	case io.SeekCurrent:
		h.off += int(off)
	case io.SeekEnd:
		h.off = len(mf.data) + int(off)
	}
	return int64(h.off), nil
}

func memClose(f *os.File) error {
	h, _, err := memH(f)
	if err != nil {
		return err
	}
	h.closed = true
	return nil
}

func memFStat(f *os.File) (os.FileInfo, error) {
	h, mf, err := memH(f)
	if err != nil {
		return nil, err
	}
	return memInfo{memBase(h.name), mf}, nil
}

func memStat(name string) (os.FileInfo, error) {
	name = memKey(name)
	f, ok := memFS[name]
	if !ok {
		return nil, memErr("stat", name, os.ErrNotExist)
	}
	return memInfo{memBase(name), f}, nil
}

func memReadlink(name string) (string, error) { return "", memErr("readlink", name, os.ErrInvalid) }

func memChmod(name string, m os.FileMode) error {
	name = memKey(name)
	f, ok := memFS[name]
	if !ok {
		return memErr("chmod", name, os.ErrNotExist)
	}
	f.mode = m
	return nil
}

func memNames(dir string) ([]string, error) {
	dir = memKey(dir)
	d, ok := memFS[dir]
	if !ok {
		return nil, memErr("open", dir, os.ErrNotExist)
	}
	if !d.dir {
		return nil, memErr("readdir", dir, os.ErrInvalid)
	}
	var names []string
	for p := range memFS {
		if len(p) > len(dir)+1 && p[:len(dir)+1] == dir+"/" && !strings.Contains(p[len(dir)+1:], "/") {
			names = append(names, p[len(dir)+1:])
		}
	}
	sort.Strings(names)
	return names, nil
}

func memReaddirnames(f *os.File, n int) ([]string, error) {
	h, _, err := memH(f)
	if err != nil {
		return nil, err
	}
	return memNames(h.name)
}

func memReadDir(dir string) ([]os.FileInfo, error) {
	dir = memKey(dir)
	names, err := memNames(dir)
	if err != nil {
		return nil, err
	}
	var res []os.FileInfo
	for _, n := range names {
		res = append(res, memInfo{n, memFS[dir+"/"+n]})
	}
	return res, nil
}

func memMkdirAll(path string, perm os.FileMode) error { memMkdir(path); return nil }

// io.Copy between files goes through (*os.File).WriteTo / ReadFrom (sendfile, copy_file_range): plain loops here
func memWriteTo(f *os.File, w io.Writer) (int64, error) {
	var total int64
	buf := make([]byte, 64)
	for {
		n, err := memRead(f, buf)
		if n > 0 {
			var werr error
			if wf, isFile := w.(*os.File); isFile {
				_, werr = memWrite(wf, buf[:n]) // replacements do not apply to calls made from harness files
			} else {
				_, werr = w.Write(buf[:n])
			}
			if werr != nil {
				return total, werr
			}
			total += int64(n)
		}
		if err == io.EOF {
			return total, nil
		}
		if err != nil {
			return total, err
		}
	}
}

func memReadFrom(f *os.File, r io.Reader) (int64, error) {
	var total int64
	buf := make([]byte, 64)
	for {
		var n int
		var err error
		if rf, isFile := r.(*os.File); isFile {
			n, err = memRead(rf, buf)
		} else {
			n, err = r.Read(buf)
		}
		if n > 0 {
			if _, werr := memWrite(f, buf[:n]); werr != nil {
				return total, werr
			}
			total += int64(n)
		}
		if err == io.EOF {
			return total, nil
		}
		if err != nil {
			return total, err
		}
	}
}

func memAbs(p string) (string, error)      { return p, nil }
func memExists(p string) (bool, error)     { _, ok := memFS[memKey(p)]; return ok, nil }
func memIsDir(p string) (bool, error)      { f, ok := memFS[memKey(p)]; return ok && f.dir, nil }

func memInstall() {
	zz.Replace("os.OpenFile", memOpenFile)
	zz.Replace("(*os.File).Read", memRead)
	zz.Replace("(*os.File).ReadAt", memReadAt)
	zz.Replace("(*os.File).Write", memWrite)
	zz.Replace("(*os.File).WriteString", memWriteString)
	zz.Replace("(*os.File).Seek", memSeek)
	zz.Replace("(*os.File).Close", memClose)
	zz.Replace("(*os.File).Stat", memFStat)
	zz.Replace("(*os.File).Readdirnames", memReaddirnames)
	zz.Replace("(*os.File).WriteTo", memWriteTo)
	zz.Replace("(*os.File).ReadFrom", memReadFrom)
	zz.Replace("os.Stat", memStat)
	zz.Replace("os.Lstat", memStat)
	zz.Replace("os.Readlink", memReadlink)
	zz.Replace("os.Chmod", memChmod)
	zz.Replace("os.MkdirAll", memMkdirAll)
	zz.Replace("io/ioutil.ReadDir", memReadDir)
	zz.Replace("path/filepath.Abs", memAbs)
	zz.Replace("github.com/krotik/common/fileutil.PathExists", memExists)
	zz.Replace("github.com/krotik/common/fileutil.IsDir", memIsDir)
}
