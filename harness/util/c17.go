package util

import (
	"os"
	"path/filepath"

	zz "github.com/krotik/ecal/zzverif"
)

var c17Opened string
var c17OpenCount int

// c17ReadFile stands for the file system in the symbolic run: it records which path is opened.
func c17ReadFile(name string) ([]byte, error) {
	// the directories of the modelled tree (/, /w, /w/r, /w/r/s, /w/q) cannot be read as files - as on the real file system
	st := c17Norm("/w", name)
	for _, d := range c17Dirs {
		if len(d) == len(st) && c17Inside(d, st) {
			return nil, c17IsDir{}
		}
	}
	c17Opened = name
	c17OpenCount++
	return []byte("SENTINEL"), nil
}

// c17Getwd stands for the working directory in the symbolic run.
func c17Getwd() (string, error) { return "/w", nil }

// c17Norm: reference normaliser - absolute segment stack of p relative to cwd.
func c17Norm(cwd, p string) []string {
	if len(p) == 0 || p[0] != '/' {
		p = cwd + "/" + p
	}
	var stack []string
	seg := ""
	flush := func() {
		switch seg {
		case "", ".":
		case "..":
			if len(stack) > 0 {
				stack = stack[:len(stack)-1]
			}
		default:
			stack = append(stack, seg)
		}
		seg = ""
	}
	for i := 0; i < len(p); i++ {
		if p[i] == '/' {
			flush()
		} else {
			seg += string(p[i : i+1])
		}
	}
	flush()
	return stack
}

func c17Inside(root, sub []string) bool {
	if len(sub) < len(root) {
		return false
	}
	for i := range root {
		if root[i] != sub[i] {
			return false
		}
	}
	return true
}

type c17IsDir struct{}

func (c17IsDir) Error() string { return "is a directory" }

var c17Dirs = [][]string{{}, {"w"}, {"w", "r"}, {"w", "r", "s"}, {"w", "q"}}

var c17Roots = []string{"/w/r", "/w/r/", "r", "./r", ".", "r/s", "/w", "/w/r/../q", "/", "../w/r", ""} // "": the zero value, the current directory

// VerifC17Resolve: for every import path of N bytes over the alphabet and every root form, Resolve either
// fails or opens a file that lies lexically inside the root.
func VerifC17Resolve() {
	n := zz.Param("N", 4)
	p := zz.Bytes("p", n)
	alpha := "ar./" // 'r' is the first letter of the root directory names: siblings sharing the root's name prefix are in
	if zz.Param("ALPHA", 0) == 1 {
		alpha = "arb./ "
	}
	for i := range p {
		zz.Assume(zz.OneOf(p[i], alpha))
	}
	ri := zz.Choice("root", len(c17Roots))
	root := c17Roots[ri]
	cwd := "/w"
	if zz.Native() {
		c17NativeResolve(root, string(p))
		return
	}
	zz.Replace("os.Getwd", c17Getwd)
	zz.Replace("io/ioutil.ReadFile", c17ReadFile)
	zz.Replace("os.ReadFile", c17ReadFile)
	c17OpenCount = 0
	_, err := (&FileImportLocator{Root: root}).Resolve(string(p))
	zz.Reach("resolved")
	if err == nil {
		zz.Reach("opened")
		zz.Assert(c17OpenCount == 1, "C17.content-comes-from-one-opened-file")
		zz.Assert(c17Inside(c17Norm(cwd, root), c17Norm(cwd, c17Opened)), "C17.opened-path-inside-root")
	} else {
		zz.Assert(c17OpenCount == 0 || c17Inside(c17Norm(cwd, root), c17Norm(cwd, c17Opened)), "C17.nothing-outside-root-opened-on-error")
	}
}

// c17NativeResolve replays a model against the real file system: a temp directory stands for /w; every
// location outside the root that the path could denote holds a sentinel file; Resolve must not return it.
func c17NativeResolve(root, p string) {
	tmp, err := os.MkdirTemp("", "c17")
	if err != nil {
		panic(err)
	}
	defer os.RemoveAll(tmp)
	base := filepath.Join(tmp, "x", "w") // two levels so that ../.. stays inside tmp
	os.MkdirAll(filepath.Join(base, "r", "s"), 0755)
	os.MkdirAll(filepath.Join(base, "q"), 0755)
	if len(root) > 0 && root[0] == '/' {
		if root == "/" {
			return // the file system root: nothing is outside
		}
		root = filepath.Join(tmp, "x") + root
	}
	os.Chdir(base)
	if root == "" && len(p) > 0 && p[0] == '/' {
		// filepath.Join drops the empty root: the import path stays absolute; it is moved into the sandbox directory
		// like the absolute roots are
		p = filepath.Join(tmp, "x") + p
	}
	target := c17Norm(base, root+"/"+p)
	if len(root) > 0 && root[0] == '/' {
		target = c17Norm(base, root+"/"+p)
	}
	rootN := c17Norm(base, root)
	if !c17Inside(rootN, target) {
		tpath := "/" + filepath.Join(target...)
		if len(tpath) >= len(tmp) && tpath[:len(tmp)] == tmp { // stays inside the sandbox directory
			os.MkdirAll(filepath.Dir(tpath), 0755)
			if fi, err := os.Stat(tpath); err != nil || !fi.IsDir() {
				os.WriteFile(tpath, []byte("SENTINEL"), 0644)
			}
		}
	}
	// files whose name is a path of the tree with something appended (a locator that alters the path after checking it
	// opens a sibling): next to every directory of the tree, outside the root
	for _, d := range []string{"r", "r/s", "q", "."} {
		for _, ext := range []string{".ecal", ".txt", "x"} {
			sib := c17Norm(base, d+ext)
			if d == "." {
				sib = c17Norm(base, "../w"+ext)
			}
			if !c17Inside(rootN, sib) {
				sp := "/" + filepath.Join(sib...)
				if len(sp) > len(tmp) && sp[:len(tmp)] == tmp {
					if _, err := os.Stat(sp); err != nil {
						os.WriteFile(sp, []byte("SENTINEL"), 0644)
					}
				}
			}
		}
	}
	res, err := (&FileImportLocator{Root: root}).Resolve(p)
	zz.Assert(!(err == nil && res == "SENTINEL"), "C17.opened-path-inside-root")
}
