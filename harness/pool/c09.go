package pool

import (
	"sync"

	zz "github.com/krotik/ecal/zzverif"
)

type c09Task struct{ runs int }

func (t *c09Task) Run(tid uint64) error { t.runs++; return nil }
func (t *c09Task) HandleError(e error)  {}

// VerifC09NoLostTask: W workers, M tasks added by the main goroutine, then no further call: in every
// terminal state (all goroutines blocked or finished) every task ran exactly once.
func VerifC09NoLostTask() {
	w := zz.Param("W", 1)
	m := zz.Param("M", 1)
	tp := NewThreadPool()
	zz.Schedule(zz.Param("P", 2))
	tp.SetWorkerCount(w, false)
	tasks := make([]*c09Task, m)
	for i := range tasks {
		tasks[i] = &c09Task{}
		tp.AddTask(tasks[i])
	}
	zz.Quiesce()
	zz.Reach("quiescent")
	for _, t := range tasks {
		zz.Assert(t.runs == 1, "C09.task-ran-exactly-once")
	}
}

// VerifC09WaitJoin: WaitAll returns only when nothing is queued or running; JoinAll processes everything
// and leaves zero workers.
func VerifC09WaitJoin() {
	w := zz.Param("W", 1)
	m := zz.Param("M", 2)
	tp := NewThreadPool()
	zz.Schedule(zz.Param("P", 2))
	tp.SetWorkerCount(w, false)
	tasks := make([]*c09Task, m)
	for i := range tasks {
		tasks[i] = &c09Task{}
		tp.AddTask(tasks[i])
	}
	if zz.Param("JOIN", 0) == 0 {
		tp.WaitAll()
		zz.Reach("waited")
		for _, t := range tasks {
			zz.Assert(t.runs == 1, "C09.waitall-returns-after-all-tasks-ran")
		}
		return
	}
	tp.JoinAll()
	zz.Reach("joined")
	for _, t := range tasks {
		zz.Assert(t.runs == 1, "C09.joinall-processed-all-tasks")
	}
	zz.Assert(tp.WorkerCount() == 0, "C09.joinall-leaves-zero-workers")
}

// VerifC09Resize: the worker count converges to the requested number (waiting form), tasks are not lost.
func VerifC09Resize() {
	a := zz.Choice("a", 3)
	b := zz.Choice("b", 3)
	tp := NewThreadPool()
	zz.Schedule(zz.Param("P", 1))
	tp.SetWorkerCount(a, false)
	t := &c09Task{}
	if b > 0 {
		tp.AddTask(t)
	}
	tp.SetWorkerCount(b, true)
	zz.Reach("resized")
	zz.Assert(tp.WorkerCount() == b, "C09.worker-count-converges")
	if b > 0 {
		tp.WaitAll()
		zz.Assert(t.runs == 1, "C09.task-survives-resize")
	}
}

// c09SyncTask: a task that synchronises before it takes effect (a pre-emption point between being taken from the queue
// and having run, as any real task has).
type c09SyncTask struct {
	mu   sync.Mutex
	runs int
}

func (t *c09SyncTask) Run(tid uint64) error {
	t.mu.Lock()
	t.runs++
	t.mu.Unlock()
	return nil
}
func (t *c09SyncTask) HandleError(e error) {}

// VerifC09Rounds: R rounds of "add a task, WaitAll": each WaitAll returns only after the task accepted before it has
// run - also when the workers were woken by the broadcasts of an earlier WaitAll / SetWorkerCount and race the next
// submission - and State() never lists more idle workers than there are workers.
func VerifC09Rounds() {
	w := zz.Param("W", 1)
	r := zz.Param("R", 2)
	tp := NewThreadPool()
	zz.Schedule(zz.Param("P", 2))
	tp.SetWorkerCount(w, zz.Param("WAITSET", 0) == 1)
	for i := 0; i < r; i++ {
		t := &c09SyncTask{}
		tp.AddTask(t)
		tp.WaitAll()
		t.mu.Lock()
		n := t.runs
		t.mu.Unlock()
		zz.Assert(n == 1, "C09.waitall-returns-after-all-tasks-ran")
	}
	zz.Reach("rounds-done")
}

// c09GateTask: a task that keeps its worker busy until the gate is opened.
type c09GateTask struct {
	gate *sync.Mutex
	runs int
}

func (t *c09GateTask) Run(tid uint64) error {
	t.gate.Lock()
	t.runs++
	t.gate.Unlock()
	return nil
}
func (t *c09GateTask) HandleError(e error) {}

// VerifC09ResizeSeq: "changing the worker count converges to the requested number", for a SEQUENCE of requests: the pool
// has a workers of which a symbolic number is kept busy by gated tasks (with up to two more tasks queued behind them); SetWorkerCount(b) and SetWorkerCount(c) (non-waiting
// form, b and c symbolic) follow each other while the gate is opened by another goroutine (so that reductions may still be
// pending when the next request arrives); once everything has settled the pool has c workers, and with c > 0 every
// accepted task ran exactly once.
func VerifC09ResizeSeq() {
	maxw := zz.Param("MAXW", 2)
	a := 1 + zz.Choice("a", maxw)
	b := zz.Choice("b", maxw+1)
	c := zz.Choice("c", maxw+1)
	busy := zz.Choice("busy", a+3) // up to a tasks keep the workers busy at the gate, further ones wait in the queue (a backlog)
	tp := NewThreadPool()
	zz.Schedule(zz.Param("P", 1))
	tp.SetWorkerCount(a, true)
	gate := &sync.Mutex{}
	gate.Lock()
	tasks := make([]*c09GateTask, busy)
	for i := range tasks {
		tasks[i] = &c09GateTask{gate: gate}
		tp.AddTask(tasks[i])
	}
	zz.Quiesce() // the workers have taken the tasks and wait at the gate
	go func() { gate.Unlock() }()
	tp.SetWorkerCount(b, false)
	tp.SetWorkerCount(c, false)
	zz.Quiesce()
	zz.Reach("settled")
	zz.Assert(tp.WorkerCount() == c, "C09.worker-count-converges")
	if c > 0 {
		for _, t := range tasks {
			gate.Lock()
			n := t.runs
			gate.Unlock()
			zz.Assert(n == 1, "C09.task-survives-resize")
		}
	}
}

// c09WaitTask runs only after another task has run (it waits for it): with two workers both tasks complete, whatever the
// order in which they were added - the second task must be started by the idle worker while the first one waits.
type c09WaitTask struct {
	other *c09SyncTask
	gate  *sync.Mutex
	runs  int
}

func (t *c09WaitTask) Run(tid uint64) error {
	t.gate.Lock() // opened by the task it depends on
	t.gate.Unlock()
	t.runs++
	return nil
}
func (t *c09WaitTask) HandleError(e error) {}

type c09OpenTask struct {
	gate *sync.Mutex
	runs int
}

func (t *c09OpenTask) Run(tid uint64) error { t.runs++; t.gate.Unlock(); return nil }
func (t *c09OpenTask) HandleError(e error)  {}

// VerifC09Dependent: "every task added is eventually started by exactly one worker without any further call": N tasks that
// each wait for a gate and one task that opens the gates, added in a symbolic order to a pool with N+1 workers: every task is
// started (an idle worker exists for each), so all of them complete without WaitAll / JoinAll being called.
func VerifC09Dependent() {
	n := zz.Param("N", 1)
	tp := NewThreadPool()
	zz.Schedule(zz.Param("P", 1))
	tp.SetWorkerCount(n+1, true)
	gate := &sync.Mutex{}
	gate.Lock()
	waiters := make([]*c09WaitTask, n)
	opener := &c09OpenTask{gate: gate}
	at := zz.Choice("openerAddedAt", n+1)
	for i := 0; i <= n; i++ {
		if i == at {
			tp.AddTask(opener)
		}
		if i < n {
			waiters[i] = &c09WaitTask{gate: gate}
			tp.AddTask(waiters[i])
		}
	}
	zz.Quiesce()
	zz.Reach("quiescent")
	zz.Assert(opener.runs == 1, "C09.task-ran-exactly-once")
	for _, w := range waiters {
		zz.Assert(w.runs == 1, "C09.task-ran-exactly-once")
	}
}
