package pool

import (
	"sync"

	zz "github.com/krotik/ecal/zzverif"
)

type c09Task struct{ runs int }

func (t *c09Task) Run(tid uint64) error { t.runs++; return nil }
func (t *c09Task) HandleError(e error)  {}

// VerifC09NoLostTask: W workers, M tasks added by the main goroutine, then no further call: in every
// terminal state (all goroutines blocked or finished) every task ran exactly once.
func VerifC09NoLostTask() {
	w := zz.Param("W", 1)
	m := zz.Param("M", 1)
	tp := NewThreadPool()
	zz.Schedule(zz.Param("P", 2))
	tp.SetWorkerCount(w, false)
	tasks := make([]*c09Task, m)
	for i := range tasks {
		tasks[i] = &c09Task{}
		tp.AddTask(tasks[i])
	}
	zz.Quiesce()
	zz.Reach("quiescent")
	for _, t := range tasks {
		zz.Assert(t.runs == 1, "C09.task-ran-exactly-once")
	}
}

// VerifC09WaitJoin: WaitAll returns only when nothing is queued or running; JoinAll processes everything
// and leaves zero workers.
func VerifC09WaitJoin() {
	w := zz.Param("W", 1)
	m := zz.Param("M", 2)
	tp := NewThreadPool()
	zz.Schedule(zz.Param("P", 2))
	tp.SetWorkerCount(w, false)
	tasks := make([]*c09Task, m)
	for i := range tasks {
		tasks[i] = &c09Task{}
		tp.AddTask(tasks[i])
	}
	if zz.Param("JOIN", 0) == 0 {
		tp.WaitAll()
		zz.Reach("waited")
		for _, t := range tasks {
			zz.Assert(t.runs == 1, "C09.waitall-returns-after-all-tasks-ran")
		}
		return
	}
	tp.JoinAll()
	zz.Reach("joined")
	for _, t := range tasks {
		zz.Assert(t.runs == 1, "C09.joinall-processed-all-tasks")
	}
	zz.Assert(tp.WorkerCount() == 0, "C09.joinall-leaves-zero-workers")
}

// VerifC09Resize: the worker count converges to the requested number (waiting form), tasks are not lost.
func VerifC09Resize() {
	a := zz.Choice("a", 3)
	b := zz.Choice("b", 3)
	tp := NewThreadPool()
	zz.Schedule(zz.Param("P", 1))
	tp.SetWorkerCount(a, false)
	t := &c09Task{}
	if b > 0 {
		tp.AddTask(t)
	}
	tp.SetWorkerCount(b, true)
	zz.Reach("resized")
	zz.Assert(tp.WorkerCount() == b, "C09.worker-count-converges")
	if b > 0 {
		tp.WaitAll()
		zz.Assert(t.runs == 1, "C09.task-survives-resize")
	}
}

// c09SyncTask: a task that synchronises before it takes effect (a pre-emption point between being taken from the queue
// and having run, as any real task has).
type c09SyncTask struct {
	mu   sync.Mutex
	runs int
}

func (t *c09SyncTask) Run(tid uint64) error {
	t.mu.Lock()
	t.runs++
	t.mu.Unlock()
	return nil
}
func (t *c09SyncTask) HandleError(e error) {}

// VerifC09Rounds: R rounds of "add a task, WaitAll": each WaitAll returns only after the task accepted before it has
// run - also when the workers were woken by the broadcasts of an earlier WaitAll / SetWorkerCount and race the next
// submission - and State() never lists more idle workers than there are workers.
func VerifC09Rounds() {
	w := zz.Param("W", 1)
	r := zz.Param("R", 2)
	tp := NewThreadPool()
	zz.Schedule(zz.Param("P", 2))
	tp.SetWorkerCount(w, zz.Param("WAITSET", 0) == 1)
	for i := 0; i < r; i++ {
		t := &c09SyncTask{}
		tp.AddTask(t)
		tp.WaitAll()
		t.mu.Lock()
		n := t.runs
		t.mu.Unlock()
		zz.Assert(n == 1, "C09.waitall-returns-after-all-tasks-ran")
	}
	zz.Reach("rounds-done")
}
