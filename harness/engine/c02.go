package engine

import (
	"errors"

	zz "github.com/krotik/ecal/zzverif"
)

type c02Ev struct {
	ev    *Event
	mon   Monitor
	kind  string
	rule  string
	fail  bool
	ran   int
	depth int
	root  int
}

type c02World struct {
	p        Processor
	evs      []*c02Ev
	maxDepth int
	maxEvs   int
}

var c02Kinds = []string{"b", "c", "x"}
var c02Rules = map[string]string{"a": "ra", "b": "rb", "c": "rc"}
var c02Lbl = []string{"0", "1", "2", "3", "4", "5", "6", "7", "8", "9", "10", "11", "12", "13", "14", "15"}

func (w *c02World) newEv(kind string, depth, root int) *c02Ev {
	l := c02Lbl[len(w.evs)]
	e := &c02Ev{kind: kind, rule: c02Rules[kind], fail: zz.Bool("fail" + l), depth: depth, root: root}
	e.ev = NewEvent("e"+l, []string{kind}, map[interface{}]interface{}{"idx": len(w.evs)})
	w.evs = append(w.evs, e)
	return e
}

// action: mark the event as run; add 0..2 child events (kind and priority symbolic) while the cascade is
// shallow enough; fail if the event's flag says so.
func (w *c02World) action() RuleAction {
	return func(p Processor, m Monitor, e *Event, tid uint64) error {
		me := w.evs[e.State()["idx"].(int)]
		me.ran++
		if me.depth < w.maxDepth {
			n := zz.Choice("children"+c02Lbl[e.State()["idx"].(int)], 3)
			for i := 0; i < n && len(w.evs) < w.maxEvs; i++ {
				l := c02Lbl[len(w.evs)]
				k := zz.Choice("kind"+l, len(c02Kinds))
				prio := zz.Choice("prio"+l, 3)
				ce := w.newEv(c02Kinds[k], me.depth+1, me.root)
				ce.mon = m.NewChildMonitor(prio)
				p.AddEvent(ce.ev, ce.mon)
			}
		}
		if me.fail {
			return errors.New("failed")
		}
		return nil
	}
}

func c02Setup(workers, maxDepth, maxEvs int) *c02World {
	w := &c02World{p: NewProcessor(workers), maxDepth: maxDepth, maxEvs: maxEvs}
	for _, k := range []string{"a", "b", "c"} {
		err := w.p.AddRule(&Rule{Name: c02Rules[k], KindMatch: []string{k}, ScopeMatch: []string{}, Action: w.action()})
		zz.Assert(err == nil, "C02.setup-addrule")
	}
	return w
}

// c02CheckCascade asserts the C02 post-conditions for the cascade with index root after its wait returned.
func c02CheckCascade(w *c02World, root int, rm *RootMonitor, fin int) {
	nfail := 0
	for _, e := range w.evs {
		if e.root != root {
			continue
		}
		if e.kind != "x" {
			zz.Assert(e.ran == 1, "C02.every-action-of-the-cascade-ran-once-before-return")
			if e.fail {
				nfail++
			}
		} else {
			zz.Assert(e.ran == 0, "C02.non-triggering-event-runs-nothing")
		}
		if mb, ok := e.mon.(*ChildMonitor); ok {
			zz.Assert(mb.IsFinished(), "C02.every-monitor-finished")
		}
	}
	zz.Assert(rm.IsFinished(), "C02.root-monitor-finished")
	zz.Assert(fin <= 1, "C02.finish-notification-at-most-once")
	errs := rm.AllErrors()
	zz.Assert(len(errs) == nfail, "C02.one-error-entry-per-failing-event")
	for i, te := range errs {
		idx, ok := te.Event.State()["idx"].(int)
		zz.Assert(ok && idx < len(w.evs), "C02.error-entry-has-event")
		me := w.evs[idx]
		zz.Assert(me.root == root, "C02.no-error-of-another-cascade")
		zz.Assert(me.fail && me.kind != "x", "C02.error-entry-belongs-to-failing-event")
		_, has := te.ErrorMap[me.rule]
		zz.Assert(len(te.ErrorMap) == 1 && has, "C02.error-attributed-to-its-rule")
		for j := 0; j < i; j++ {
			zz.Assert(errs[j].Event != te.Event, "C02.no-duplicate-error-entry")
		}
	}
}

// VerifC02Cascade: one cascade of symbolic shape, AddEventAndWait.  With P>0 all interleavings of the
// workers with the adding goroutine up to P pre-emptions are covered.
func VerifC02Cascade() {
	w := c02Setup(zz.Param("WORKERS", 1), zz.Param("DEPTH", 1), zz.Param("MAXEVS", 4))
	if p := zz.Param("P", 0); p > 0 {
		zz.ReportHeapRaces() // unordered conflicting accesses in engine code are findings (confirmed under the race detector)
		zz.Schedule(p)
	}
	w.p.Start()
	rm := w.p.NewRootMonitor(nil, nil)
	fin := 0
	rm.SetFinishHandler(func(p Processor) { fin++ })
	root := w.newEv("a", 0, 0)
	root.mon = rm
	m, err := w.p.AddEventAndWait(root.ev, rm)
	zz.Reach("returned")
	zz.Assert(err == nil && m != nil, "C02.event-accepted")
	c02CheckCascade(w, 0, rm, fin)
	// the finish handler may still be running on the worker when the wait returns; once everything is
	// quiet it has fired exactly once
	zz.Quiesce()
	zz.Assert(fin == 1, "C02.finish-notification-exactly-once")
}

// VerifC02TwoCascades: two cascades in flight at once (second one added without waiting first).
func VerifC02TwoCascades() {
	w := c02Setup(zz.Param("WORKERS", 1), zz.Param("DEPTH", 1), zz.Param("MAXEVS", 5))
	if p := zz.Param("P", 0); p > 0 {
		zz.Schedule(p)
	}
	w.p.Start()
	rm1 := w.p.NewRootMonitor(nil, nil)
	rm2 := w.p.NewRootMonitor(nil, nil)
	fin1, fin2 := 0, 0
	rm1.SetFinishHandler(func(p Processor) { fin1++ })
	rm2.SetFinishHandler(func(p Processor) { fin2++ })
	r1 := w.newEv("a", 0, 0)
	r1.mon = rm1
	// the second, waited event triggers a rule or not (a waited add of a non-triggering event returns at once and
	// must leave the cascade in flight alone)
	secondKind := "a"
	if zz.Bool("secondNonTriggering") {
		secondKind = "x"
	}
	r2 := w.newEv(secondKind, 0, 1)
	r2.mon = rm2
	w.p.AddEvent(r1.ev, rm1)
	m2, err := w.p.AddEventAndWait(r2.ev, rm2)
	zz.Reach("second-returned")
	zz.Assert(err == nil, "C02.event-accepted")
	if secondKind == "a" {
		c02CheckCascade(w, 1, rm2, fin2)
	} else {
		zz.Assert(m2 == nil && r2.ran == 0, "C02.non-triggering-event-runs-nothing")
	}
	w.p.ThreadPool().WaitAll()
	zz.Reach("all-idle")
	c02CheckCascade(w, 0, rm1, fin1)
	zz.Quiesce()
	zz.Assert(fin1 == 1, "C02.finish-notification-exactly-once")
	if secondKind == "a" {
		zz.Assert(fin2 == 1, "C02.finish-notification-exactly-once")
	}
}

// VerifC02NestedWait: "it does return whenever the actions terminate and a worker is available": N outer events are added back
// to back (non-waiting) to a pool of N+1 workers; every outer action adds an inner event WITH wait semantics (a nested wait on
// a worker) whose rule optionally fails; after quiescence every cascade has finished, every action ran once and the inner
// failure is reported in the inner cascade only.
func VerifC02NestedWait() {
	n := zz.Param("N", 2)
	p := NewProcessor(n + 1)
	outerRan, innerRan := 0, 0
	innerFails := zz.Bool("innerFails")
	var innerErrs []int
	p.AddRule(&Rule{Name: "outer", KindMatch: []string{"o"}, ScopeMatch: []string{},
		Action: func(p Processor, m Monitor, e *Event, tid uint64) error {
			im, err := p.AddEventAndWait(NewEvent("inner", []string{"i"}, nil), nil)
			if err == nil && im != nil {
				innerErrs = append(innerErrs, len(im.(*RootMonitor).AllErrors()))
			}
			outerRan++
			return nil
		}})
	p.AddRule(&Rule{Name: "inner", KindMatch: []string{"i"}, ScopeMatch: []string{},
		Action: func(p Processor, m Monitor, e *Event, tid uint64) error {
			innerRan++
			if innerFails {
				return errors.New("inner failed")
			}
			return nil
		}})
	zz.Schedule(zz.Param("P", 1))
	p.Start()
	mons := make([]*RootMonitor, n)
	for i := 0; i < n; i++ {
		mons[i] = p.NewRootMonitor(nil, nil)
		p.AddEvent(NewEvent("outer", []string{"o"}, nil), mons[i])
	}
	zz.Quiesce()
	zz.Reach("quiescent")
	zz.Assert(outerRan == n && innerRan == n, "C02.every-action-of-the-cascade-ran")
	for i := 0; i < n; i++ {
		zz.Assert(mons[i].IsFinished(), "C02.waiting-returns-and-every-monitor-ends-finished")
		if mons[i].IsFinished() {
			zz.Assert(len(mons[i].AllErrors()) == 0, "C02.nothing-belonging-to-another-cascade")
		}
	}
	want := 0
	if innerFails {
		want = 1
	}
	for _, k := range innerErrs {
		zz.Assert(k == want, "C02.one-error-entry-per-failing-event")
	}
}
