package engine

import (
	"errors"

	"github.com/krotik/ecal/engine/pubsub"

	zz "github.com/krotik/ecal/zzverif"
)

var c10Lbl = []string{"0", "1", "2", "3", "4", "5", "6", "7", "8", "9"}

// VerifC10HighestPriorityHeap: N child monitors activated with arbitrary priorities, then K of them
// finished in an arbitrary order; after every finish the root monitor's report equals the lowest
// priority among activated, unfinished monitors (-1 if none).
func VerifC10HighestPriorityHeap() {
	n := zz.Param("N", 4)
	k := zz.Param("K", 2)
	p := NewProcessor(1)
	rm := p.NewRootMonitor(nil, nil)
	ev := NewEvent("e", []string{"a"}, nil)
	ms := make([]Monitor, n)
	pr := make([]int, n)
	done := make([]bool, n)
	for i := range ms {
		pr[i] = zz.Int("prio" + c10Lbl[i])
		zz.Assume(pr[i] >= 0)
		zz.Assume(pr[i] < 16)
		if zz.Param("HEAPORDER", 0) == 1 && i > 0 {
			// arbitrary valid heap with distinct entries, given in array order: the pushes do not sift
			zz.Assume(pr[(i-1)/2] < pr[i])
			for j := 0; j < i; j++ {
				zz.Assume(pr[j] != pr[i])
			}
		}
		ms[i] = rm.NewChildMonitor(pr[i])
		ms[i].Activate(ev)
	}
	for j := 0; j < k; j++ {
		idx := zz.Int("finish" + c10Lbl[j])
		zz.Assume(idx >= 0)
		zz.Assume(idx < n)
		zz.Assume(!done[idx])
		done[idx] = true
		ms[idx].Finish()
		zz.Reach("finished")
		exp := -1
		for i := range ms {
			if !done[i] && (exp < 0 || pr[i] < exp) {
				exp = pr[i]
			}
		}
		zz.Assert(rm.HighestPriority() == exp, "C10.highest-priority")
	}
}

// VerifC10HighestPriorityHistory: arbitrary history of monitor operations on one root monitor.
func VerifC10HighestPriorityHistory() {
	steps := zz.Param("L", 4)
	const M = 3
	p := NewProcessor(1)
	rm := p.NewRootMonitor(nil, nil)
	ev := NewEvent("e", []string{"a"}, nil)
	var ms [M]Monitor
	var pr [M]int
	var created, activated, byActivate, finished [M]bool
	for s := 0; s < steps; s++ {
		op := zz.Choice("op"+c10Lbl[s], 4)
		i := zz.Choice("mon"+c10Lbl[s], M)
		switch op {
		case 0: // new child
			zz.Assume(!created[i])
			pr[i] = zz.Int("prio" + c10Lbl[s])
			zz.Assume(pr[i] >= 0)
			zz.Assume(pr[i] < 8)
			ms[i] = rm.NewChildMonitor(pr[i])
			created[i] = true
		case 1: // Activate
			zz.Assume(created[i])
			zz.Assume(!activated[i])
			ms[i].Activate(ev)
			activated[i], byActivate[i] = true, true
		case 2: // Skip
			zz.Assume(created[i])
			zz.Assume(!activated[i])
			ms[i].Skip(ev)
			activated[i], finished[i] = true, true
		case 3: // Finish
			zz.Assume(activated[i])
			zz.Assume(!finished[i])
			ms[i].Finish()
			finished[i] = true
		}
		zz.Reach("step")
		exp := -1
		skipSamePrio := false
		for j := 0; j < M; j++ {
			if byActivate[j] && !finished[j] && (exp < 0 || pr[j] < exp) {
				exp = pr[j]
			}
		}
		_ = skipSamePrio
		zz.Assert(rm.HighestPriority() == exp, "C10.highest-priority-history")
	}
}

// VerifC10RuleOrder: rules triggered by one event run in ascending priority; with fail-on-first-error
// nothing runs after the first failure and exactly that failure is reported, otherwise all run and
// all failures are reported.
func VerifC10RuleOrder() {
	n := zz.Param("R", 3)
	p := NewProcessor(1)
	fofe := zz.Bool("failOnFirst")
	p.SetFailOnFirstErrorInTriggerSequence(fofe)
	// the names of the rules in the order they are added: any arrangement (the order of execution depends on priorities only)
	names := []string{"r0", "r1", "r2", "r3", "r4"}
	if zz.Bool("namesDescending") {
		names = []string{"r9", "r8", "r7", "r6", "r5"}
	} else if zz.Bool("namesMixed") {
		names = []string{"r5", "r1", "r8", "r0", "r3"}
	}
	prio := make([]int, n)
	fail := make([]bool, n)
	var trace []int
	for i := 0; i < n; i++ {
		i := i
		prio[i] = zz.Int("prio" + c10Lbl[i])
		zz.Assume(prio[i] >= 0)
		zz.Assume(prio[i] < 8)
		fail[i] = zz.Bool("fail" + c10Lbl[i])
		err := p.AddRule(&Rule{Name: names[i], Desc: "", KindMatch: []string{"a"}, ScopeMatch: []string{}, StateMatch: nil,
			Priority: prio[i], SuppressionList: nil,
			Action: func(p Processor, m Monitor, e *Event, tid uint64) error {
				trace = append(trace, i)
				if fail[i] {
					return errors.New("failed")
				}
				return nil
			}})
		zz.Assert(err == nil, "C10.addrule")
	}
	rm := p.NewRootMonitor(nil, nil)
	errs := p.ProcessEvent(0, NewEvent("e", []string{"a"}, nil), rm)
	zz.Reach("processed")
	// ascending priority
	for j := 1; j < len(trace); j++ {
		zz.Assert(prio[trace[j-1]] <= prio[trace[j]], "C10.rule-order-ascending")
	}
	// no rule runs twice
	for j := 0; j < len(trace); j++ {
		for l := 0; l < j; l++ {
			zz.Assert(trace[j] != trace[l], "C10.rule-runs-once")
		}
	}
	nfail := 0
	for _, r := range trace {
		if fail[r] {
			nfail++
		}
	}
	if fofe {
		// the trace ends with the first failing rule, if any ran
		for j := 0; j+1 < len(trace); j++ {
			zz.Assert(!fail[trace[j]], "C10.nothing-runs-after-first-failure")
		}
		anyFail := false
		for i := 0; i < n; i++ {
			if fail[i] {
				anyFail = true
			}
		}
		if anyFail {
			zz.Assert(len(errs) == 1, "C10.exactly-first-failure-reported")
			zz.Assert(len(trace) > 0 && fail[trace[len(trace)-1]], "C10.sequence-ends-at-failure")
			_, ok := errs[names[trace[len(trace)-1]]]
			zz.Assert(ok, "C10.failure-attributed-to-failing-rule")
			// every rule with a strictly lower priority number than the failing one ran before it
			last := trace[len(trace)-1]
			for i := 0; i < n; i++ {
				if prio[i] < prio[last] {
					ran := false
					for _, r := range trace {
						if r == i {
							ran = true
						}
					}
					zz.Assert(ran, "C10.higher-priority-rule-ran-first")
				}
			}
		} else {
			zz.Assert(len(errs) == 0 && len(trace) == n, "C10.all-run-without-failure")
		}
	} else {
		zz.Assert(len(trace) == n, "C10.all-rules-run")
		zz.Assert(len(errs) == nfail, "C10.all-failures-reported")
		for i := 0; i < n; i++ {
			_, ok := errs[names[i]]
			zz.Assert(ok == fail[i], "C10.failures-attributed")
		}
	}
}

// VerifC10DequeueOrder: arbitrary sequence of Push (arbitrary cascade, arbitrary priority) and Pop on the
// processor's task queue; every Pop returns, for the cascade it serves, the queued task with the least
// (priority, arrival) and nil only if nothing is queued; no task is returned twice or lost.
func VerifC10DequeueOrder() {
	steps := zz.Param("S", 4)
	p := NewProcessor(1)
	tq := NewTaskQueue(pubsub.NewEventPump())
	rms := []*RootMonitor{p.NewRootMonitor(nil, nil), p.NewRootMonitor(nil, nil)}
	ev := NewEvent("e", []string{"a"}, nil)
	var tasks []*Task
	var root, prio []int
	var queued []bool
	for s := 0; s < steps; s++ {
		if zz.Choice("op"+c10Lbl[s], 2) == 0 {
			r := zz.Choice("root"+c10Lbl[s], 2)
			pr := zz.Int("prio" + c10Lbl[s])
			zz.Assume(pr >= 0)
			zz.Assume(pr < 8)
			t := &Task{p, rms[r].NewChildMonitor(pr), ev}
			tq.Push(t)
			tasks = append(tasks, t)
			root = append(root, r)
			prio = append(prio, pr)
			queued = append(queued, true)
			continue
		}
		res := tq.Pop()
		zz.Reach("pop")
		nq := 0
		for j := range tasks {
			if queued[j] {
				nq++
			}
		}
		if res == nil {
			zz.Assert(nq == 0, "C10.pop-nil-only-when-empty")
			continue
		}
		t := res.(*Task)
		k := -1
		for j := range tasks {
			if tasks[j] == t {
				k = j
			}
		}
		zz.Assert(k >= 0 && queued[k], "C10.pop-returns-a-queued-task-once")
		if k < 0 {
			continue
		}
		for j := range tasks {
			if queued[j] && root[j] == root[k] && j != k {
				// (priority, arrival) of k is the least within its cascade
				zz.Assert(prio[k] < prio[j] || (prio[k] == prio[j] && k < j), "C10.dequeue-lowest-priority-oldest-first")
			}
		}
		queued[k] = false
	}
	zz.Assert(tq.Size() == c10Count(queued), "C10.queue-size-consistent")
}

func c10Count(q []bool) int {
	n := 0
	for _, b := range q {
		if b {
			n++
		}
	}
	return n
}

// VerifC10FailingRuleChildren: through a running processor: with fail-on-first-error on, the rule after the failing one
// does not run, yet the child event the failing rule added is processed; with it off, all rules run.  Priorities and
// which rule fails are symbolic; the event order of the cascade follows the child monitor priorities.
func VerifC10FailingRuleChildren() {
	p := NewProcessor(1)
	fofe := zz.Bool("failOnFirst")
	p.SetFailOnFirstErrorInTriggerSequence(fofe)
	var trace []string
	prio := []int{zz.Choice("prio0", 3), zz.Choice("prio1", 3), zz.Choice("prio2", 3)}
	failing := zz.Choice("failing", 4) // 3 = none
	names := []string{"r0", "r1", "r2"}
	addsChildren := zz.Bool("rulesAddChildEvents") // without children the failing event can be the last monitor of the cascade to finish
	for i := 0; i < 3; i++ {
		i := i
		err := p.AddRule(&Rule{Name: names[i], KindMatch: []string{"a"}, ScopeMatch: []string{}, Priority: prio[i],
			Action: func(p Processor, m Monitor, e *Event, tid uint64) error {
				trace = append(trace, names[i])
				// every rule adds a child event; the child of rule i has priority 2-i (later rules' children first)
				if addsChildren {
					p.AddEvent(NewEvent("child"+names[i], []string{"c"}, map[interface{}]interface{}{"from": names[i]}), m.NewChildMonitor(2-i))
				}
				if i == failing {
					return errors.New("failed")
				}
				return nil
			}})
		zz.Assert(err == nil, "C10.addrule")
	}
	var children []string
	p.AddRule(&Rule{Name: "rc", KindMatch: []string{"c"}, ScopeMatch: []string{},
		Action: func(p Processor, m Monitor, e *Event, tid uint64) error {
			children = append(children, e.State()["from"].(string))
			return nil
		}})
	if pre := zz.Param("P", 0); pre > 0 {
		zz.Schedule(pre) // the waiter reads the report as soon as the wait returns: all schedules with <= P pre-emptions
	}
	p.Start()
	m, err := p.AddEventAndWait(NewEvent("e", []string{"a"}, nil), nil)
	zz.Reach("cascade-done")
	zz.Assert(err == nil && m != nil, "C10.event-accepted")
	// reference: rules in ascending priority (stable for equal priorities is not required: only the multiset per rank)
	ran := map[string]bool{}
	for _, r := range trace {
		ran[r] = true
	}
	for j := 1; j < len(trace); j++ {
		a, b := trace[j-1][1]-'0', trace[j][1]-'0'
		zz.Assert(prio[a] <= prio[b], "C10.rule-order-ascending")
	}
	if fofe && failing < 3 {
		zz.Assert(ran[names[failing]], "C10.failing-rule-ran")
		zz.Assert(len(trace) > 0 && trace[len(trace)-1] == names[failing], "C10.nothing-runs-after-first-failure")
	} else {
		zz.Assert(len(trace) == 3, "C10.all-rules-run")
	}
	// every rule that ran added a child event, and every such child is processed - also the failing rule's
	if !addsChildren {
		zz.Assert(len(children) == 0, "C10.children-of-all-run-rules-processed")
		trace = nil
	}
	zz.Assert(len(children) == len(trace), "C10.children-of-all-run-rules-processed")
	for _, r := range trace {
		found := false
		for _, c := range children {
			if c == r {
				found = true
			}
		}
		zz.Assert(found, "C10.child-of-failing-rule-still-processed")
	}
	// children are taken in ascending child-monitor priority (2-i), oldest first among equals
	for j := 1; j < len(children); j++ {
		a, b := children[j-1][1]-'0', children[j][1]-'0'
		zz.Assert(2-int(a) <= 2-int(b), "C10.cascade-events-taken-by-priority")
	}
	if failing < 3 {
		errs := m.(*RootMonitor).AllErrors()
		zz.Assert(len(errs) == 1, "C10.failure-reported")
	}
}
