package engine

import (
	"regexp"

	zz "github.com/krotik/ecal/zzverif"
)

var c01Lbl = []string{"0", "1", "2", "3", "4", "5", "6", "7", "8", "9"}
var c01Names = []string{"r0", "r1", "r2", "r3"}
var c01Keys = []string{"k1", "k2"}
var c01Regexp = regexp.MustCompile("^a")

// c01Pattern returns a kind pattern of 1..S segments, each a symbolic byte over {a, b, *}.
func c01Pattern(label string, maxSeg int) ([]byte, string) {
	n := zz.Choice(label+"_n", maxSeg) + 1
	segs := zz.Bytes(label, n)
	s := ""
	for i := range segs {
		zz.Assume(zz.OneOf(segs[i], "ab*"))
		if i > 0 {
			s += "."
		}
		s += string(segs[i : i+1])
	}
	return segs, s
}

// c01PatValue: pattern value of a symbolic kind: nil (any), number, string, regexp.
func c01PatValue(label string) interface{} {
	switch zz.Choice(label+"_kind", 4) {
	case 1:
		return zz.Float64(label + "_f")
	case 2:
		b := zz.Bytes(label+"_s", 1)
		zz.Assume(zz.OneOf(b[0], "ab"))
		return string(b)
	case 3:
		return c01Regexp
	}
	return nil
}

// c01StateValue: event state value of a symbolic kind: nil, number, string, list.
func c01StateValue(label string) interface{} {
	switch zz.Choice(label+"_kind", 4) {
	case 1:
		return zz.Float64(label + "_f")
	case 2:
		b := zz.Bytes(label+"_s", 1)
		zz.Assume(zz.OneOf(b[0], "ab"))
		return string(b)
	case 3:
		return []interface{}{1.0}
	}
	return nil
}

func c01KindMatches(pat []byte, kind []byte) bool {
	if len(pat) != len(kind) {
		return false
	}
	for i := range pat {
		if pat[i] != '*' && pat[i] != kind[i] {
			return false
		}
	}
	return true
}

func c01StateMatches(pat map[string]interface{}, st map[interface{}]interface{}) bool {
	for _, k := range c01Keys {
		pv, need := pat[k]
		if !need {
			continue
		}
		v, ok := st[k]
		if !ok {
			return false
		}
		if pv == nil {
			continue
		}
		if pv == interface{}(c01Regexp) {
			s, isStr := v.(string)
			if isStr && len(s) > 0 && s[0] == 'a' {
				continue
			}
			return false // nil, numbers and lists never render to a text starting with 'a'
		}
		if _, isList := v.([]interface{}); isList || v == nil {
			return false
		}
		if pv != v {
			return false
		}
	}
	return true
}

type c01Rule struct {
	pats  [][]byte
	state map[string]interface{}
	rule  *Rule
}

func c01MakeRules(r, p, s int, withState bool) []*c01Rule {
	var rules []*c01Rule
	for i := 0; i < r; i++ {
		cr := &c01Rule{}
		np := zz.Choice("np"+c01Lbl[i], p) + 1
		var kindMatch []string
		for j := 0; j < np; j++ {
			segs, str := c01Pattern("pat"+c01Lbl[i]+c01Lbl[j], s)
			cr.pats = append(cr.pats, segs)
			kindMatch = append(kindMatch, str)
		}
		if withState && zz.Bool("hasState"+c01Lbl[i]) {
			cr.state = map[string]interface{}{}
			for ki, k := range c01Keys[:zz.Param("KEYS", 2)] {
				if zz.Bool("req" + c01Lbl[i] + c01Lbl[ki]) {
					cr.state[k] = c01PatValue("pv" + c01Lbl[i] + c01Lbl[ki])
				}
			}
		}
		cr.rule = &Rule{Name: c01Names[i], KindMatch: kindMatch, ScopeMatch: []string{}, StateMatch: cr.state}
		rules = append(rules, cr)
	}
	return rules
}

func c01Event(name string, label string, maxSeg int, withState bool) (*Event, []byte, map[interface{}]interface{}) {
	n := zz.Choice(label+"_n", maxSeg) + 1
	segs := zz.Bytes(label, n)
	kind := make([]string, n)
	for i := range segs {
		zz.Assume(zz.OneOf(segs[i], "abc"))
		kind[i] = string(segs[i : i+1])
	}
	state := map[interface{}]interface{}{}
	if withState {
		for ki, k := range c01Keys[:zz.Param("KEYS", 2)] {
			if zz.Bool(label + "_has" + c01Lbl[ki]) {
				state[k] = c01StateValue(label + "_sv" + c01Lbl[ki])
			}
		}
	}
	return NewEvent(name, kind, state), segs, state
}

func (cr *c01Rule) matches(kind []byte, state map[interface{}]interface{}) bool {
	km := false
	for _, p := range cr.pats {
		if c01KindMatches(p, kind) {
			km = true
		}
	}
	if !km {
		return false
	}
	return cr.state == nil || c01StateMatches(cr.state, state)
}

// VerifC01Match: Match(e) returns exactly the rules the reference matcher selects, each once; and
// IsTriggering(e) holds whenever that set is non-empty.
func VerifC01Match() {
	rules := c01MakeRules(zz.Param("R", 2), zz.Param("P", 2), zz.Param("S", 2), zz.Param("STATE", 1) == 1)
	ri := NewRuleIndex()
	for _, cr := range rules {
		zz.Assert(ri.AddRule(cr.rule) == nil, "C01.setup-addrule")
	}
	ev, kind, state := c01Event("e", "ev", zz.Param("S", 2)+1, zz.Param("STATE", 1) == 1)
	zz.Reach("built")
	res := ri.Match(ev)
	zz.Reach("matched")
	any := false
	for i, cr := range rules {
		cnt := 0
		for _, r := range res {
			if r == cr.rule {
				cnt++
			}
		}
		want := cr.matches(kind, state)
		if want {
			any = true
			zz.Known("C01-rule-with-two-matching-patterns-returned-twice", "C01.matching-rule-returned-exactly-once", c01TwoPatternsMatch(cr, kind))
			zz.Assert(cnt == 1, "C01.matching-rule-returned-exactly-once")
		} else {
			zz.Assert(cnt == 0, "C01.non-matching-rule-not-returned")
		}
		_ = i
	}
	if any {
		zz.Assert(ri.IsTriggering(ev), "C01.matching-event-reported-triggering")
	}
}

func c01TwoPatternsMatch(cr *c01Rule, kind []byte) bool {
	n := 0
	for _, p := range cr.pats {
		if c01KindMatches(p, kind) {
			n++
		}
	}
	return n >= 2
}

var c01Digits = "0123456789"

func c01Name(i int) string { return "r" + string(c01Digits[i/10]) + string(c01Digits[i%10]) }

// VerifC01Mask: N state rules on one kind (rule i requires k == i): for every event value v exactly rule i
// with v == i is returned, and the match terminates.
func VerifC01Mask() {
	n := zz.Param("N", 63)
	ri := NewRuleIndex()
	rules := make([]*Rule, n)
	for i := 0; i < n; i++ {
		rules[i] = &Rule{Name: c01Name(i), KindMatch: []string{"a"}, ScopeMatch: []string{},
			StateMatch: map[string]interface{}{"k": float64(i)}}
		ri.AddRule(rules[i])
	}
	v := zz.Float64("v")
	zz.Terminates("(*github.com/krotik/ecal/engine.RuleIndexState).matchAtLevel", 70)
	zz.Known("C01-more-than-64-state-rules-on-one-kind", "C01.mask", n > 64 && v >= 64)
	res := ri.Match(NewEvent("e", []string{"a"}, map[interface{}]interface{}{"k": v}))
	zz.Reach("matched")
	for i := 0; i < n; i++ {
		cnt := 0
		for _, r := range res {
			if r == rules[i] {
				cnt++
			}
		}
		want := 0
		if v == float64(i) {
			want = 1
		}
		zz.Assert(cnt == want, "C01.mask-exactly-matching-rules")
	}
}

// VerifC01History: a running processor receives a sequence of events whose names and kinds are
// symbolic; for every event: a monitor is returned iff the reference set is non-empty, and exactly the
// reference rules ran, once each - whatever was added before (trigger cache).
func VerifC01History() {
	withState := zz.Param("STATE", 0) == 1
	rules := c01MakeRules(zz.Param("R", 2), 1, zz.Param("S", 2), withState)
	p := NewProcessor(1)
	counts := make([]int, len(rules))
	for i, cr := range rules {
		i := i
		cr.rule.Action = func(p Processor, m Monitor, e *Event, tid uint64) error {
			counts[i]++
			return nil
		}
		zz.Assert(p.AddRule(cr.rule) == nil, "C01.setup-addrule")
	}
	p.Start()
	n := zz.Param("EVENTS", 2)
	for k := 0; k < n; k++ {
		nb := zz.Bytes("name"+c01Lbl[k], 1)
		zz.Assume(zz.OneOf(nb[0], "12"))
		ev, kind, state := c01Event("n"+string(nb), "ev"+c01Lbl[k], zz.Param("S", 2), withState)
		for i := range counts {
			counts[i] = 0
		}
		m, err := p.AddEventAndWait(ev, nil)
		zz.Reach("event-done")
		zz.Assert(err == nil, "C01.event-accepted")
		any := false
		for i, cr := range rules {
			want := cr.matches(kind, state)
			if want {
				any = true
				zz.Assert(counts[i] == 1, "C01.history-matching-rule-ran-exactly-once")
			} else {
				zz.Assert(counts[i] == 0, "C01.history-non-matching-rule-did-not-run")
			}
		}
		if any {
			zz.Assert(m != nil, "C01.history-matching-event-never-skipped")
		}
	}
}

var c01ScopePaths = []string{"", "a", "a.b", "c"}
var c01ScopeReq = []string{"a", "a.b", "c", "a.c"}

// c01Allowed: reference - the longest explicitly defined prefix of path decides; default not allowed.
func c01Allowed(def map[string]bool, path string) bool {
	allowed := false
	if v, ok := def[""]; ok {
		allowed = v
	}
	prefixes := map[string][]string{"a": {"a"}, "a.b": {"a", "a.b"}, "c": {"c"}, "a.c": {"a", "a.c"}}
	for _, p := range prefixes[path] {
		if v, ok := def[p]; ok {
			allowed = v
		}
	}
	return allowed
}

// VerifC01ScopeSuppression: rules triggered by one event with symbolic scope requirements and
// suppression lists, cascade scope symbolic: exactly the in-scope rules not suppressed by another
// in-scope triggering rule run, once each.
func VerifC01ScopeSuppression() {
	r := zz.Param("R", 2)
	p := NewProcessor(1)
	def := map[string]bool{}
	for i, sp := range c01ScopePaths {
		if zz.Bool("def" + c01Lbl[i]) {
			def[sp] = zz.Bool("allow" + c01Lbl[i])
		}
	}
	counts := make([]int, r)
	reqs := make([][]string, r)
	sup := make([][]bool, r)
	for i := 0; i < r; i++ {
		i := i
		reqs[i] = []string{}
		for j, q := range c01ScopeReq {
			if zz.Bool("req" + c01Lbl[i] + c01Lbl[j]) {
				reqs[i] = append(reqs[i], q)
			}
		}
		sup[i] = make([]bool, r)
		var sl []string
		for j := 0; j < r; j++ {
			if j != i && zz.Bool("sup"+c01Lbl[i]+c01Lbl[j]) {
				sup[i][j] = true
				sl = append(sl, c01Names[j])
			}
		}
		err := p.AddRule(&Rule{Name: c01Names[i], KindMatch: []string{"a"}, ScopeMatch: reqs[i], SuppressionList: sl,
			Action: func(p Processor, m Monitor, e *Event, tid uint64) error {
				counts[i]++
				return nil
			}})
		zz.Assert(err == nil, "C01.setup-addrule")
	}
	rm := p.NewRootMonitor(nil, NewRuleScope(def))
	zz.Reach("built")
	p.ProcessEvent(0, NewEvent("e", []string{"a"}, nil), rm)
	zz.Reach("processed")
	inScope := make([]bool, r)
	for i := 0; i < r; i++ {
		inScope[i] = true
		for _, q := range reqs[i] {
			if !c01Allowed(def, q) {
				inScope[i] = false
			}
		}
	}
	for i := 0; i < r; i++ {
		suppressed := false
		for j := 0; j < r; j++ {
			if inScope[j] && sup[j][i] {
				suppressed = true
			}
		}
		if inScope[i] && !suppressed {
			zz.Assert(counts[i] == 1, "C01.in-scope-unsuppressed-rule-ran-exactly-once")
		} else {
			zz.Assert(counts[i] == 0, "C01.out-of-scope-or-suppressed-rule-did-not-run")
		}
	}
}
