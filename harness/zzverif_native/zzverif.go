// Package zzverif (native implementation): replays recorded nondet values from $VERIF_CEX.
package zzverif

import (
	"runtime"
	"sync"
	"time"
	"encoding/json"
	"fmt"
	"math"
	"os"
)

type pause struct {
	Site         string `json:"site"`
	Arrival      int    `json:"arrival"`
	ReleaseSite  string `json:"release_site"`
	ReleaseCount int    `json:"release_count"`
	OnArrival    bool   `json:"on_arrival"`
}

type cex struct {
	Values map[string]uint64 `json:"values"`
	Pauses []pause           `json:"pauses"`
	Params map[string]int    `json:"params"`
}

var (
	mu       sync.Mutex
	cv       = sync.NewCond(&mu)
	arrivals = map[string]int{}
	dones    = map[string]int{}
)

// At is called before an instrumented operation; it blocks when the site/arrival is a recorded pause point.
func At(site string) {
	mu.Lock()
	arrivals[site]++
	k := arrivals[site]
	cv.Broadcast()
	for _, p := range c.Pauses {
		if p.Site == site && p.Arrival == k {
			deadline := time.Now().Add(3 * time.Second)
			for time.Now().Before(deadline) {
				if p.OnArrival && arrivals[p.ReleaseSite] >= p.ReleaseCount {
					break
				}
				if !p.OnArrival && dones[p.ReleaseSite] >= p.ReleaseCount {
					break
				}
				go func() { time.Sleep(20 * time.Millisecond); mu.Lock(); cv.Broadcast(); mu.Unlock() }()
				cv.Wait()
			}
			if p.OnArrival {
				mu.Unlock()
				time.Sleep(50 * time.Millisecond) // let the other goroutine enter its blocking call
				mu.Lock()
			}
		}
	}
	mu.Unlock()
}

// Done is called after an instrumented operation completed.
func Done(site string) {
	mu.Lock()
	dones[site]++
	cv.Broadcast()
	mu.Unlock()
}

var c cex

func init() {
	if p := os.Getenv("VERIF_CEX"); p != "" {
		b, err := os.ReadFile(p)
		if err != nil {
			panic(err)
		}
		if err := json.Unmarshal(b, &c); err != nil {
			panic(err)
		}
	}
}

func val(label string) uint64 { return c.Values[label] }

func Byte(label string) byte       { return byte(val(label)) }
func Int(label string) int         { return int(int64(val(label))) }
func Bool(label string) bool       { return val(label) == 1 }
func Float64(label string) float64 { return math.Float64frombits(val(label)) }
func Choice(label string, n int) int {
	return int(val(label))
}
func Bytes(label string, n int) []byte {
	b := make([]byte, n)
	for i := range b {
		b[i] = byte(val(fmt.Sprintf("%s_%d", label, i)))
	}
	return b
}
func Len(label string, lo, hi int) int { return int(val(label)) }
func Assume(ok bool) {
	if !ok {
		fmt.Println("VERIF-ASSUME-VIOLATED")
		os.Exit(3)
	}
}
func Assert(ok bool, msg string) {
	if !ok {
		panic("VERIF-ASSERT " + msg)
	}
}
func Reach(label string)           {}
func Native() bool                 { return true }
func ReportRaces()                 {}
func ReportHeapRaces()             {}
func Ite(c bool, a, b int) int {
	if c {
		return a
	}
	return b
}

var goroutineBase = -1

// LiveGoroutines: goroutines started since the first call that are still alive after a grace period.
func LiveGoroutines() int {
	if goroutineBase < 0 {
		goroutineBase = runtime.NumGoroutine()
		return 0
	}
	for i := 0; i < 20; i++ {
		if runtime.NumGoroutine() <= goroutineBase {
			return 0
		}
		time.Sleep(10 * time.Millisecond)
	}
	return runtime.NumGoroutine() - goroutineBase
}
func Known(name, label string, c bool) {}
func Terminates(fn string, n int)  {}
func Param(name string, def int) int {
	if v, ok := c.Params[name]; ok {
		return v
	}
	return def
}
func OneOf(b byte, alphabet string) bool {
	for i := 0; i < len(alphabet); i++ {
		if alphabet[i] == b {
			return true
		}
	}
	return false
}
func SameFloat(a, b float64) bool  { return a == b || (a != a && b != b) }
func Schedule(maxPreempt int)      {}
func Quiesce()                     { time.Sleep(400 * time.Millisecond) }
func ScheduleRacy(maxPreempt int)  {}
func ScheduleEraser(maxPreempt int) {}
func Replace(name string, fn interface{}) {}

// Digest (translator self-test): the text is appended to $VERIF_DIGEST_OUT as one JSON line {"label":..., "text":...}.
func Digest(label, text string) {
	if p := os.Getenv("VERIF_DIGEST_OUT"); p != "" {
		f, err := os.OpenFile(p, os.O_APPEND|os.O_CREATE|os.O_WRONLY, 0644)
		if err == nil {
			b, _ := json.Marshal(map[string]string{"label": label, "text": text})
			f.Write(append(b, '\n'))
			f.Close()
		}
	}
}
