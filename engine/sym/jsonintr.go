package sym

import (
	"encoding/json"
	"fmt"
	"go/types"
	"sort"

	"gosym/smt"

	"golang.org/x/tools/go/ssa"
)

// encoding/json is reflection based and cannot be interpreted.  Marshal/Unmarshal are executed natively on
// fully concrete values of the shapes ecal passes (nil, bool, numbers, strings, []interface{}, []string,
// map[string]T, map[interface{}]interface{} - the latter is rejected by json exactly as natively);
// anything else ends the path as unsupported.

var emptyIface = types.NewInterfaceType(nil, nil).Complete()

type jsonUnsupported struct{ what string }
type jsonPending struct{}
type jsonFailed struct{ msg string }

func (ex *Exec) methodNamed(t types.Type, name string) *ssa.Function {
	ms := ex.Prog.MethodSets.MethodSet(t)
	for i := 0; i < ms.Len(); i++ {
		if ms.At(i).Obj().Name() == name {
			return ex.Prog.MethodValue(ms.At(i))
		}
	}
	return nil
}

func (ex *Exec) toGoDeep(st *State, v Value, t types.Type) interface{} {
	ex.jsonDepth++
	defer func() { ex.jsonDepth-- }()
	if ex.jsonDepth > 300 {
		// encoding/json counts pointer/map/slice levels and gives up with an error on a value that contains itself
		panic(jsonFailed{"json: unsupported value: encountered a cycle"})
	}
	switch x := v.(type) {
	case nil:
		return nil
	case Iface:
		if x.T == nil {
			return nil
		}
		return ex.toGoDeep(st, x.V, x.T)
	case Str:
		s, ok := x.Concrete()
		if !ok {
			panic(jsonUnsupported{"symbolic string"})
		}
		return s
	case *smt.Term:
		if !x.IsConst() {
			panic(jsonUnsupported{"symbolic scalar"})
		}
		g := ex.goScalar(x, t)
		if i, ok := g.(int64); ok && t != nil {
			if b, ok := t.Underlying().(*types.Basic); ok && b.Kind() == types.Int {
				return int(i)
			}
		}
		return g
	case Slice:
		var et types.Type = emptyIface
		if t != nil {
			if sl, ok := t.Underlying().(*types.Slice); ok {
				et = sl.Elem()
			}
		}
		if isString(et) {
			out := make([]string, x.Len)
			for i := 0; i < x.Len; i++ {
				out[i] = ex.toGoDeep(st, st.Heap.get(x.Arr).V.(Array)[x.Off+i], et).(string)
			}
			if x.Arr == 0 {
				return []string(nil)
			}
			return out
		}
		if x.Arr == 0 {
			return []interface{}(nil)
		}
		out := make([]interface{}, x.Len)
		for i := 0; i < x.Len; i++ {
			out[i] = ex.toGoDeep(st, st.Heap.get(x.Arr).V.(Array)[x.Off+i], et)
		}
		return out
	case MapRef:
		if x.Obj != 0 {
			ex.globalAccess(st, x.Obj, -1, false) // the encoder reads the map: visible to the happens-before pass
		}
		md := ex.mapData(st, x)
		var kt, vt types.Type = emptyIface, emptyIface
		if t != nil {
			if m, ok := t.Underlying().(*types.Map); ok {
				kt, vt = m.Key(), m.Elem()
			}
		}
		if isString(kt) {
			if x.Obj == 0 {
				return map[string]interface{}(nil)
			}
			out := map[string]interface{}{}
			for i := range md.Keys {
				out[ex.toGoDeep(st, md.Keys[i], kt).(string)] = ex.toGoDeep(st, md.Vals[i], vt)
			}
			return out
		}
		out := map[interface{}]interface{}{}
		for i := range md.Keys {
			out[ex.toGoDeep(st, md.Keys[i], kt)] = ex.toGoDeep(st, md.Vals[i], vt)
		}
		return out
	case Ptr:
		if x.Obj == 0 {
			return nil
		}
		if t != nil {
			if m := ex.methodNamed(t, "MarshalJSON"); m != nil && len(m.Blocks) > 0 {
				r, ok := ex.helperCall(st, m, []Value{x}, nil)
				if !ok {
					panic(jsonPending{})
				}
				tup := r.(Tuple)
				if e, _ := tup[1].(Iface); e.T != nil {
					panic(jsonFailed{"json: error calling MarshalJSON for type " + t.String()}) // Marshal returns a MarshalerError
				}
				cs, ok := Str{ex.bytesOf(st, tup[0])}.Concrete()
				if !ok {
					panic(jsonUnsupported{"symbolic MarshalJSON output"})
				}
				return json.RawMessage(cs)
			}
		}
		if t != nil {
			if pt, ok := t.Underlying().(*types.Pointer); ok {
				// encoding/json follows pointers
				return ex.toGoDeep(st, ex.load(st, x), pt.Elem())
			}
		}
		panic(jsonUnsupported{fmt.Sprintf("pointer value of type %v", t)})
	case Struct:
		if t != nil {
			if stt, ok := t.Underlying().(*types.Struct); ok {
				if m := ex.methodNamed(t, "MarshalJSON"); m != nil {
					panic(jsonUnsupported{fmt.Sprintf("MarshalJSON on value type %v", t)})
				}
				// encoding/json: exported fields by name, embedded structs flattened, unexported fields skipped
				// (rendered as a map: the key order of the text differs from a struct's field order, the content does not)
				out := map[string]interface{}{}
				for i := 0; i < stt.NumFields(); i++ {
					f := stt.Field(i)
					ft := f.Type()
					if f.Embedded() {
						et := ft
						if p, ok := ft.Underlying().(*types.Pointer); ok {
							et = p.Elem()
						}
						if _, isStruct := et.Underlying().(*types.Struct); isStruct {
							if sub, ok := ex.toGoDeep(st, x[i], ft).(map[string]interface{}); ok {
								for k, v := range sub {
									if _, has := out[k]; !has {
										out[k] = v
									}
								}
							}
							continue
						}
					}
					if !f.Exported() {
						continue
					}
					switch ft.Underlying().(type) {
					case *types.Signature:
						if c, _ := x[i].(Closure); c.Fn != nil {
							out[f.Name()] = func() {} // rejected by encoding/json exactly as natively
						} else {
							out[f.Name()] = (func())(nil)
						}
						continue
					case *types.Chan:
						out[f.Name()] = make(chan int)
						continue
					}
					out[f.Name()] = ex.toGoDeep(st, x[i], ft)
				}
				return out
			}
		}
		panic(jsonUnsupported{fmt.Sprintf("struct value of type %v", t)})
	case Closure:
		if x.Fn == nil {
			return (func())(nil)
		}
		return func() {}
	}
	panic(jsonUnsupported{fmt.Sprintf("%T", v)})
}


func (ex *Exec) fromGoDeep(st *State, g interface{}) Value {
	C := ex.C
	switch x := g.(type) {
	case nil:
		return Iface{}
	case bool:
		return Iface{T: types.Typ[types.Bool], V: C.BoolConst(x)}
	case float64:
		return Iface{T: types.Typ[types.Float64], V: C.FPConst(x)}
	case string:
		return Iface{T: types.Typ[types.String], V: ex.strConst(x)}
	case []interface{}:
		arr := make(Array, len(x))
		for i, e := range x {
			arr[i] = ex.fromGoDeep(st, e)
		}
		id := st.alloc(&Object{V: arr})
		return Iface{T: types.NewSlice(emptyIface), V: Slice{id, 0, len(x), len(x)}}
	case map[string]interface{}:
		keys := make([]string, 0, len(x))
		for k := range x {
			keys = append(keys, k)
		}
		sort.Strings(keys)
		md := &MapData{}
		for _, k := range keys {
			md.Keys = append(md.Keys, ex.strConst(k))
			md.Vals = append(md.Vals, ex.fromGoDeep(st, x[k]))
		}
		id := st.alloc(&Object{Map: md})
		return Iface{T: types.NewMap(types.Typ[types.String], emptyIface), V: MapRef{id}}
	}
	panic(jsonUnsupported{fmt.Sprintf("unmarshalled %T", g)})
}

func registerJSON(ex *Exec) {
	I := ex.Intr
	guard := func(ex *Exec, st *State, f func() Value) (res Value, done bool) {
		defer func() {
			if r := recover(); r != nil {
				if ju, ok := r.(jsonUnsupported); ok {
					ex.unsupported(st, "encoding/json on "+ju.what)
				}
				if _, ok := r.(jsonPending); ok {
					res, done = nil, false
					return
				}
				panic(r)
			}
		}()
		return f(), true
	}
	bytesVal := func(st *State, b []byte) Value {
		arr := make(Array, len(b))
		for i, c := range b {
			arr[i] = ex.C.BVConst(uint64(c), 8)
		}
		id := st.alloc(&Object{V: arr})
		return Slice{id, 0, len(b), len(b)}
	}
	marshal := func(indent bool) Intrinsic {
		return func(ex *Exec, st *State, args []Value, call ssa.CallInstruction) (Value, bool) {
			return guard(ex, st, func() (res Value) {
				defer func() {
					if r := recover(); r != nil {
						if jf, ok := r.(jsonFailed); ok {
							res = Tuple{Slice{}, ex.nativeError(st, jf.msg)}
							return
						}
						panic(r)
					}
				}()
				ex.jsonDepth = 0
				g := ex.toGoDeep(st, args[0], nil)
				var b []byte
				var err error
				if indent {
					b, err = json.MarshalIndent(g, cstr(args[1]), cstr(args[2]))
				} else {
					b, err = json.Marshal(g)
				}
				if err != nil {
					return Tuple{Slice{}, ex.nativeError(st, err.Error())}
				}
				return Tuple{bytesVal(st, b), Iface{}}
			})
		}
	}
	I["encoding/json.Marshal"] = marshal(false)
	I["encoding/json.MarshalIndent"] = marshal(true)
	I["encoding/json.Unmarshal"] = func(ex *Exec, st *State, args []Value, call ssa.CallInstruction) (Value, bool) {
		return guard(ex, st, func() Value {
			bs := ex.bytesOf(st, args[0])
			cs, ok := Str{bs}.Concrete()
			if !ok {
				panic(jsonUnsupported{"symbolic JSON text"})
			}
			target := args[1].(Iface)
			if _, isPtr := target.T.Underlying().(*types.Pointer); !isPtr {
				panic(jsonUnsupported{"Unmarshal target " + target.T.String()})
			}
			elem := target.T.Underlying().(*types.Pointer).Elem()
			if _, isIface := elem.Underlying().(*types.Interface); !isIface {
				panic(jsonUnsupported{"Unmarshal target " + target.T.String()})
			}
			var g interface{}
			if err := json.Unmarshal([]byte(cs), &g); err != nil {
				return ex.nativeError(st, err.Error())
			}
			ex.store(st, target.V.(Ptr), ex.fromGoDeep(st, g))
			return Iface{}
		})
	}
}
