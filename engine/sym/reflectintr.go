package sym

import (
	"fmt"
	"go/types"
	"reflect"

	"gosym/smt"

	"golang.org/x/tools/go/ssa"
)

// A subset of package reflect, implemented on go/types: what a function bridge needs to inspect a
// signature, check and convert arguments, call the function and unpack its results.
//
//   reflect.Type   = Iface{T: *reflect.rtype, V: Native{rtypeRef{T}}}   (nil Type = nil interface)
//   reflect.Value  = Native{reflVal{T, V}} in place of the struct         (zero struct = invalid Value)
//
// Type identity is go/types identity, assignability is go/types assignability (reflect documents
// Call's argument rule as "assignable to the function's parameter type" in the sense of the language
// specification), Call runs the function through the executor (interpreted or intrinsic), and the
// documented panics of Call / Int / Uint / Float / Type / Interface are raised as Go panics.

type rtypeRef struct{ T types.Type }

type reflVal struct {
	T types.Type // static type of the value held (an interface type only for results / elements of interface kind)
	V Value
}

func (ex *Exec) rtypePtr() types.Type {
	pkg := ex.Prog.ImportedPackage("reflect")
	if pkg == nil {
		return nil
	}
	return types.NewPointer(pkg.Type("rtype").Type())
}

func (ex *Exec) mkRType(st *State, t types.Type) Value {
	if t == nil {
		return Iface{}
	}
	rp := ex.rtypePtr()
	if rp == nil {
		ex.unsupported(st, "reflect not loaded")
	}
	return Iface{T: rp, V: Native{rtypeRef{t}}}
}

func reflKind(t types.Type) uint64 {
	switch u := t.Underlying().(type) {
	case *types.Basic:
		switch u.Kind() {
		case types.Bool, types.UntypedBool:
			return 1
		case types.Int, types.UntypedInt:
			return 2
		case types.Int8:
			return 3
		case types.Int16:
			return 4
		case types.Int32, types.UntypedRune:
			return 5
		case types.Int64:
			return 6
		case types.Uint:
			return 7
		case types.Uint8:
			return 8
		case types.Uint16:
			return 9
		case types.Uint32:
			return 10
		case types.Uint64:
			return 11
		case types.Uintptr:
			return 12
		case types.Float32:
			return 13
		case types.Float64, types.UntypedFloat:
			return 14
		case types.Complex64:
			return 15
		case types.Complex128:
			return 16
		case types.String, types.UntypedString:
			return 24
		case types.UnsafePointer:
			return 26
		}
	case *types.Array:
		return 17
	case *types.Chan:
		return 18
	case *types.Signature:
		return 19
	case *types.Interface:
		return 20
	case *types.Map:
		return 21
	case *types.Pointer:
		return 22
	case *types.Slice:
		return 23
	case *types.Struct:
		return 25
	}
	return 0
}

var reflKindNames = []string{"invalid", "bool", "int", "int8", "int16", "int32", "int64", "uint", "uint8", "uint16", "uint32", "uint64", "uintptr",
	"float32", "float64", "complex64", "complex128", "array", "chan", "func", "interface", "map", "ptr", "slice", "string", "struct", "unsafe.Pointer"}

func reflTypeString(t types.Type) string {
	return types.TypeString(t, func(p *types.Package) string { return p.Name() })
}

func registerReflect(ex *Exec) {
	I := ex.Intr
	C := ex.C
	rt := func(st *State, v Value) types.Type {
		if n, ok := v.(Native); ok {
			if r, ok := n.V.(rtypeRef); ok {
				return r.T
			}
		}
		if p, ok := v.(Ptr); ok && p.Obj == 0 {
			ex.goPanic(st, "nil pointer dereference (reflect.Type)")
		}
		ex.unsupported(st, fmt.Sprintf("reflect.Type receiver %T", v))
		return nil
	}
	rv := func(st *State, v Value, method string) reflVal {
		if n, ok := v.(Native); ok {
			if r, ok := n.V.(reflVal); ok {
				return r
			}
		}
		if _, ok := v.(Struct); ok {
			// the zero Value
			ex.goPanic(st, "reflect: call of reflect.Value."+method+" on zero Value")
		}
		ex.unsupported(st, fmt.Sprintf("reflect.Value receiver %T", v))
		return reflVal{}
	}
	I["reflect.TypeOf"] = func(ex *Exec, st *State, args []Value, call ssa.CallInstruction) (Value, bool) {
		i := args[0].(Iface)
		return ex.mkRType(st, i.T), true
	}
	I["reflect.ValueOf"] = func(ex *Exec, st *State, args []Value, call ssa.CallInstruction) (Value, bool) {
		i := args[0].(Iface)
		if i.T == nil {
			return ex.zero(call.Value().Type()), true
		}
		return Native{reflVal{i.T, i.V}}, true
	}
	I["(reflect.Value).Type"] = func(ex *Exec, st *State, args []Value, call ssa.CallInstruction) (Value, bool) {
		return ex.mkRType(st, rv(st, args[0], "Type").T), true
	}
	I["(reflect.Value).IsValid"] = func(ex *Exec, st *State, args []Value, call ssa.CallInstruction) (Value, bool) {
		_, ok := args[0].(Native)
		return C.BoolConst(ok), true
	}
	I["(reflect.Value).Kind"] = func(ex *Exec, st *State, args []Value, call ssa.CallInstruction) (Value, bool) {
		if _, ok := args[0].(Struct); ok {
			return C.BVConst(0, 64), true
		}
		return C.BVConst(reflKind(rv(st, args[0], "Kind").T), 64), true
	}
	I["(reflect.Value).Interface"] = func(ex *Exec, st *State, args []Value, call ssa.CallInstruction) (Value, bool) {
		v := rv(st, args[0], "Interface")
		if _, isIface := v.T.Underlying().(*types.Interface); isIface {
			return v.V.(Iface), true // the dynamic value held by the interface (or nil)
		}
		return Iface{T: v.T, V: v.V}, true
	}
	I["(reflect.Value).Int"] = func(ex *Exec, st *State, args []Value, call ssa.CallInstruction) (Value, bool) {
		v := rv(st, args[0], "Int")
		if k := reflKind(v.T); k < 2 || k > 6 {
			ex.goPanic(st, "reflect: call of reflect.Value.Int on "+reflKindNames[k]+" Value")
		}
		t := v.V.(*smt.Term)
		if t.Sort.W < 64 {
			t = C.Sext(t, 64)
		}
		return t, true
	}
	I["(reflect.Value).Uint"] = func(ex *Exec, st *State, args []Value, call ssa.CallInstruction) (Value, bool) {
		v := rv(st, args[0], "Uint")
		if k := reflKind(v.T); k < 7 || k > 12 {
			ex.goPanic(st, "reflect: call of reflect.Value.Uint on "+reflKindNames[k]+" Value")
		}
		t := v.V.(*smt.Term)
		if t.Sort.W < 64 {
			t = C.Zext(t, 64)
		}
		return t, true
	}
	I["(reflect.Value).Float"] = func(ex *Exec, st *State, args []Value, call ssa.CallInstruction) (Value, bool) {
		v := rv(st, args[0], "Float")
		if k := reflKind(v.T); k != 13 && k != 14 {
			ex.goPanic(st, "reflect: call of reflect.Value.Float on "+reflKindNames[k]+" Value")
		}
		return v.V, true // float32 values are carried as float64 terms holding a float32-representable value
	}
	I["(reflect.Value).Bool"] = func(ex *Exec, st *State, args []Value, call ssa.CallInstruction) (Value, bool) {
		v := rv(st, args[0], "Bool")
		if k := reflKind(v.T); k != 1 {
			ex.goPanic(st, "reflect: call of reflect.Value.Bool on "+reflKindNames[k]+" Value")
		}
		return v.V, true
	}
	// Pointer: the identity of the storage behind a slice, map, pointer, channel or function value
	I["(reflect.Value).Pointer"] = func(ex *Exec, st *State, args []Value, call ssa.CallInstruction) (Value, bool) {
		v := rv(st, args[0], "Pointer")
		switch x := v.V.(type) {
		case Slice:
			if x.Arr == 0 {
				return C.BVConst(0, 64), true
			}
			return C.BVConst(uint64(x.Arr)<<20+uint64(x.Off)*16, 64), true
		case MapRef:
			return C.BVConst(uint64(x.Obj)<<20, 64), true
		case ChanRef:
			return C.BVConst(uint64(x.Obj)<<20, 64), true
		case Ptr:
			if x.Obj == 0 {
				return C.BVConst(0, 64), true
			}
			off := uint64(0)
			for _, p := range x.Path {
				off = off*64 + uint64(p) + 1
			}
			return C.BVConst(uint64(x.Obj)<<20+off, 64), true
		}
		ex.goPanic(st, "reflect: call of reflect.Value.Pointer on "+reflKindNames[reflKind(v.T)]+" Value")
		return nil, true
	}
	I["(reflect.Value).String"] = func(ex *Exec, st *State, args []Value, call ssa.CallInstruction) (Value, bool) {
		if _, ok := args[0].(Struct); ok {
			return ex.strConst("<invalid Value>"), true
		}
		v := rv(st, args[0], "String")
		if reflKind(v.T) == 24 {
			return v.V, true
		}
		return ex.strConst("<" + reflTypeString(v.T) + " Value>"), true
	}

	// ---- reflect.Type methods (receiver *rtype) ----
	sig := func(st *State, t types.Type, m string) *types.Signature {
		s, ok := t.Underlying().(*types.Signature)
		if !ok {
			ex.goPanic(st, "reflect: "+m+" of non-func type "+reflTypeString(t))
		}
		return s
	}
	I["(*reflect.rtype).Kind"] = func(ex *Exec, st *State, args []Value, call ssa.CallInstruction) (Value, bool) {
		return C.BVConst(reflKind(rt(st, args[0])), 64), true
	}
	I["(*reflect.rtype).String"] = func(ex *Exec, st *State, args []Value, call ssa.CallInstruction) (Value, bool) {
		return ex.strConst(reflTypeString(rt(st, args[0]))), true
	}
	I["(*reflect.rtype).NumIn"] = func(ex *Exec, st *State, args []Value, call ssa.CallInstruction) (Value, bool) {
		return C.BVConst(uint64(sig(st, rt(st, args[0]), "NumIn").Params().Len()), 64), true
	}
	I["(*reflect.rtype).NumOut"] = func(ex *Exec, st *State, args []Value, call ssa.CallInstruction) (Value, bool) {
		return C.BVConst(uint64(sig(st, rt(st, args[0]), "NumOut").Results().Len()), 64), true
	}
	I["(*reflect.rtype).IsVariadic"] = func(ex *Exec, st *State, args []Value, call ssa.CallInstruction) (Value, bool) {
		return C.BoolConst(sig(st, rt(st, args[0]), "IsVariadic").Variadic()), true
	}
	tupleAt := func(st *State, tp *types.Tuple, iv Value, m string) types.Type {
		i := ex.concreteInt(st, iv)
		if i < 0 || i >= int64(tp.Len()) {
			ex.goPanic(st, fmt.Sprintf("reflect: Func index out of bounds (%s %d of %d)", m, i, tp.Len()))
		}
		return tp.At(int(i)).Type()
	}
	I["(*reflect.rtype).In"] = func(ex *Exec, st *State, args []Value, call ssa.CallInstruction) (Value, bool) {
		return ex.mkRType(st, tupleAt(st, sig(st, rt(st, args[0]), "In").Params(), args[1], "In")), true
	}
	I["(*reflect.rtype).Out"] = func(ex *Exec, st *State, args []Value, call ssa.CallInstruction) (Value, bool) {
		return ex.mkRType(st, tupleAt(st, sig(st, rt(st, args[0]), "Out").Results(), args[1], "Out")), true
	}
	I["(*reflect.rtype).Elem"] = func(ex *Exec, st *State, args []Value, call ssa.CallInstruction) (Value, bool) {
		t := rt(st, args[0])
		switch u := t.Underlying().(type) {
		case *types.Pointer:
			return ex.mkRType(st, u.Elem()), true
		case *types.Slice:
			return ex.mkRType(st, u.Elem()), true
		case *types.Array:
			return ex.mkRType(st, u.Elem()), true
		case *types.Map:
			return ex.mkRType(st, u.Elem()), true
		case *types.Chan:
			return ex.mkRType(st, u.Elem()), true
		}
		ex.goPanic(st, "reflect: Elem of invalid type "+reflTypeString(t))
		return nil, true
	}
	I["(*reflect.rtype).Implements"] = func(ex *Exec, st *State, args []Value, call ssa.CallInstruction) (Value, bool) {
		t := rt(st, args[0])
		ui := args[1].(Iface)
		if ui.T == nil {
			ex.goPanic(st, "reflect: nil type passed to Type.Implements")
		}
		u := rt(st, ui.V)
		it, ok := u.Underlying().(*types.Interface)
		if !ok {
			ex.goPanic(st, "reflect: non-interface type passed to Type.Implements")
		}
		return C.BoolConst(types.Implements(t, it)), true
	}
	I["(*reflect.rtype).AssignableTo"] = func(ex *Exec, st *State, args []Value, call ssa.CallInstruction) (Value, bool) {
		t := rt(st, args[0])
		ui := args[1].(Iface)
		if ui.T == nil {
			ex.goPanic(st, "reflect: nil type passed to Type.AssignableTo")
		}
		return C.BoolConst(types.AssignableTo(t, rt(st, ui.V))), true
	}
	I["(*reflect.rtype).ConvertibleTo"] = func(ex *Exec, st *State, args []Value, call ssa.CallInstruction) (Value, bool) {
		t := rt(st, args[0])
		ui := args[1].(Iface)
		if ui.T == nil {
			ex.goPanic(st, "reflect: nil type passed to Type.ConvertibleTo")
		}
		return C.BoolConst(types.ConvertibleTo(t, rt(st, ui.V))), true
	}
	I["(*reflect.rtype).Comparable"] = func(ex *Exec, st *State, args []Value, call ssa.CallInstruction) (Value, bool) {
		return C.BoolConst(types.Comparable(rt(st, args[0]))), true
	}
	// DeepEqual: natively, on deep copies of fully concrete values of the shapes the JSON conversion knows
	I["reflect.DeepEqual"] = func(ex *Exec, st *State, args []Value, call ssa.CallInstruction) (res Value, done bool) {
		defer func() {
			if r := recover(); r != nil {
				switch r.(type) {
				case jsonUnsupported, jsonFailed, jsonPending:
					ex.unsupported(st, "reflect.DeepEqual on a value that is not plain concrete data")
				default:
					panic(r)
				}
			}
		}()
		a, b := args[0].(Iface), args[1].(Iface)
		if a.T == nil || b.T == nil {
			return C.BoolConst(a.T == nil && b.T == nil), true
		}
		if !types.Identical(a.T, b.T) {
			return C.False, true
		}
		ex.jsonDepth = 0
		ga := ex.toGoDeep(st, a.V, a.T)
		ex.jsonDepth = 0
		gb := ex.toGoDeep(st, b.V, b.T)
		return C.BoolConst(reflect.DeepEqual(ga, gb)), true
	}
	I["(*reflect.rtype).Name"] = func(ex *Exec, st *State, args []Value, call ssa.CallInstruction) (Value, bool) {
		t := rt(st, args[0])
		if n, ok := t.(*types.Named); ok {
			return ex.strConst(n.Obj().Name()), true
		}
		if b, ok := t.(*types.Basic); ok {
			return ex.strConst(b.Name()), true
		}
		return ex.strConst(""), true
	}

	// ---- Call ----
	I["(reflect.Value).Call"] = func(ex *Exec, st *State, args []Value, call ssa.CallInstruction) (Value, bool) {
		fv := rv(st, args[0], "Call")
		s, ok := fv.T.Underlying().(*types.Signature)
		if !ok {
			ex.goPanic(st, "reflect: call of reflect.Value.Call on "+reflKindNames[reflKind(fv.T)]+" Value")
		}
		cl, _ := fv.V.(Closure)
		if cl.Fn == nil {
			ex.goPanic(st, "reflect: call of nil function")
		}
		in := args[1].(Slice)
		var ins []Value
		if in.Len > 0 {
			ins = st.Heap.get(in.Arr).V.(Array)[in.Off : in.Off+in.Len]
		}
		n := s.Params().Len()
		if s.Variadic() {
			if len(ins) < n-1 {
				ex.goPanic(st, "reflect: Call with too few input arguments")
			}
		} else {
			if len(ins) < n {
				ex.goPanic(st, "reflect: Call with too few input arguments")
			}
			if len(ins) > n {
				ex.goPanic(st, "reflect: Call with too many input arguments")
			}
		}
		conv := func(a Value, targ types.Type) Value {
			x, ok := a.(Native)
			if !ok {
				ex.goPanic(st, "reflect: Call using zero Value argument")
			}
			xv := x.V.(reflVal)
			if !types.AssignableTo(xv.T, targ) {
				ex.goPanic(st, "reflect: Call using "+reflTypeString(xv.T)+" as type "+reflTypeString(targ))
			}
			if _, isIface := targ.Underlying().(*types.Interface); isIface {
				if _, already := xv.T.Underlying().(*types.Interface); already {
					return xv.V
				}
				return Iface{T: xv.T, V: xv.V}
			}
			return xv.V
		}
		var cargs []Value
		fixed := n
		if s.Variadic() {
			fixed = n - 1
		}
		for i := 0; i < fixed; i++ {
			cargs = append(cargs, conv(ins[i], s.Params().At(i).Type()))
		}
		if s.Variadic() {
			et := s.Params().At(n - 1).Type().(*types.Slice).Elem()
			rest := ins[fixed:]
			if len(rest) == 0 {
				cargs = append(cargs, Slice{})
			} else {
				arr := make(Array, len(rest))
				for i, a := range rest {
					arr[i] = conv(a, et)
				}
				fr := st.frame()
				if fr.MemoIdx < len(fr.Memo) {
					// second execution (the callee has returned): the packed slice is not needed again
					cargs = append(cargs, Slice{})
				} else {
					id := st.alloc(&Object{V: arr})
					cargs = append(cargs, Slice{id, 0, len(arr), len(arr)})
				}
			}
		}
		var res Value
		if intr, ok := ex.Intr[cl.Fn.String()]; ok {
			r, done := intr(ex, st, cargs, nil)
			if !done {
				ex.unsupported(st, "reflect Call of a blocking intrinsic")
			}
			res = r
		} else {
			if len(cl.Fn.Blocks) == 0 {
				ex.unsupported(st, "reflect Call of external function "+cl.Fn.String())
			}
			if pk := cl.Fn.Package(); pk != nil && !ex.Interp(pk.Pkg.Path()) {
				ex.unsupported(st, "reflect Call into non-interpreted package: "+cl.Fn.String())
			}
			r, done := ex.helperCall(st, cl.Fn, cargs, cl.Env)
			if !done {
				return nil, false
			}
			res = r
		}
		outs := make(Array, s.Results().Len())
		for i := range outs {
			var v Value
			if len(outs) == 1 {
				v = res
			} else {
				v = res.(Tuple)[i]
			}
			outs[i] = Native{reflVal{s.Results().At(i).Type(), v}}
		}
		if len(outs) == 0 {
			return Slice{}, true
		}
		id := st.alloc(&Object{V: outs})
		return Slice{id, 0, len(outs), len(outs)}, true
	}
}
