package sym

import (
	"fmt"
	"go/types"
	"os"
	"strings"
	"text/template"

	"golang.org/x/tools/go/packages"
	"golang.org/x/tools/go/ssa"
	"golang.org/x/tools/go/ssa/ssautil"
)

func typesPointer(t types.Type) types.Type { return types.NewPointer(t) }

var InitPkgs = []string{"bufio", "math/bits", "sort", "container/heap", "errors", "internal/filepathlite", "path/filepath", "unicode/utf8", "strings", "bytes", "github.com/krotik/common/errorutil", "github.com/krotik/common/stringutil", "github.com/krotik/common/sortutil", "github.com/krotik/common/datautil", "github.com/krotik/ecal/zzverif", "github.com/krotik/ecal/parser", "github.com/krotik/ecal/engine/pubsub", "github.com/krotik/ecal/engine/pool", "github.com/krotik/ecal/engine", "github.com/krotik/ecal/config", "github.com/krotik/ecal/util", "github.com/krotik/ecal/scope", "github.com/krotik/ecal/stdlib", "github.com/krotik/ecal/interpreter", "io", "github.com/krotik/common/fileutil", "github.com/krotik/ecal/cli/tool"}

var interpreted = []string{
	"github.com/krotik/ecal/", "github.com/krotik/common/", "unicode/utf8", "errors", "strings", "sort", "container/heap", "bytes", "internal/stringslite", "io", "path/filepath", "internal/filepathlite", "os", "bufio", "math/bits", "slices", "cmp", "path", "sync/atomic", "io/ioutil",
}

// ExtraInterp: further packages (in dependency order) a job asks to be interpreted and initialised.
var ExtraInterp []string

func defaultInterp(p string) bool {
	for _, pre := range ExtraInterp {
		if p == pre {
			return true
		}
	}
	for _, pre := range interpreted {
		if p == pre || (strings.HasSuffix(pre, "/") && strings.HasPrefix(p, pre)) {
			return true
		}
	}
	return false
}

// Load loads pkgs from dir with an overlay and prepares the executor (globals + init).
func Load(dir string, overlay map[string][]byte, patterns ...string) (*Exec, []*ssa.Package, error) {
	cfg := &packages.Config{Mode: packages.LoadAllSyntax, Dir: dir, Overlay: overlay}
	pkgs, err := packages.Load(cfg, patterns...)
	if err != nil {
		return nil, nil, err
	}
	var perrs []string
	packages.Visit(pkgs, nil, func(p *packages.Package) {
		for _, e := range p.Errors {
			if len(perrs) < 5 {
				perrs = append(perrs, e.Error())
			}
		}
	})
	if len(perrs) > 0 {
		return nil, nil, fmt.Errorf("package errors: %s", strings.Join(perrs, " ;; "))
	}
	prog, spkgs := ssautil.AllPackages(pkgs, ssa.InstantiateGenerics)
	prog.Build()
	ex, err := NewExec(prog)
	if err != nil {
		return nil, nil, err
	}
	ex.Interp = defaultInterp
	ex.OverApprox = map[string]int{}
	registerTemplates(ex)
	// allocate globals of interpreted packages
	var id ObjID
	for _, p := range prog.AllPackages() {
		if !ex.Interp(p.Pkg.Path()) {
			continue
		}
		for _, m := range p.Members {
			if g, ok := m.(*ssa.Global); ok {
				id++
				ex.base[id] = &Object{V: ex.zero(g.Type().(*types.Pointer).Elem())}
				ex.globals[g] = id
			}
		}
	}
	// run package initializers concretely; resulting heap becomes the frozen base
	ex.InitMode = true
	_ = spkgs
	for _, ip := range append(append([]string{}, ExtraInterp...), InitPkgs...) {
		sp := prog.ImportedPackage(ip)
		if sp == nil {
			continue
		}
		initFn := sp.Func("init")
		nf := len(ex.Findings)
		st := &State{Heap: Heap{ex.base, map[ObjID]*Object{}}, NextObj: id + 1, Visits: map[*ssa.BasicBlock]int{}}
		st.Gs = []*G{{ID: 0}}
		ex.pushFrame(st, initFn, nil, nil, nil)
		ex.push(st)
		var last *State
		for len(ex.work) > 0 {
			s := ex.work[len(ex.work)-1]
			ex.work = ex.work[:len(ex.work)-1]
			last = s
			ex.runPath(s)
		}
		for k, v := range last.Heap.delta {
			ex.base[k] = v
		}
		id = last.NextObj
		for i := nf; i < len(ex.Findings); i++ {
			ex.Findings[i].Msg += " [init of " + ip + "]"
		}
	}
	// os.Args is filled by the runtime, not by an initialiser: give the program a name
	if osp := prog.ImportedPackage("os"); osp != nil {
		if g, ok := osp.Members["Args"].(*ssa.Global); ok {
			if gid, ok := ex.globals[g]; ok {
				id++
				ex.base[id] = &Object{V: Array{ex.strConst("/w/ecal")}}
				ex.base[gid] = &Object{V: Slice{id, 0, 1, 1}}
			}
		}
	}
	for _, f := range ex.Findings {
		fmt.Fprintf(os.Stderr, "init finding: %s %s %s\n", f.Kind, f.Msg, f.Where)
	}
	ex.InitMode = false
	ex.BaseMax = id
	// names for package-level variables and the objects they refer to directly (maps, slices, pointers)
	ex.GlobalNames = map[ObjID]string{}
	for g, gid := range ex.globals {
		name := g.Pkg.Pkg.Path() + "." + g.Name()
		ex.GlobalNames[gid] = name
		if o, ok := ex.base[gid]; ok {
			switch v := o.V.(type) {
			case MapRef:
				if v.Obj != 0 {
					ex.GlobalNames[v.Obj] = name
				}
			case Ptr:
				if v.Obj != 0 && ex.GlobalNames[v.Obj] == "" {
					ex.GlobalNames[v.Obj] = name
				}
			case Slice:
				if v.Arr != 0 && ex.GlobalNames[v.Arr] == "" {
					ex.GlobalNames[v.Arr] = name
				}
			}
		}
	}
	ex.WriteAfterInit = map[string]bool{}
	ex.RacySites = map[string]bool{}
	fmt.Fprintf(os.Stderr, "init skipped %d items\n", len(ex.InitSkipped))
	ex.Findings = nil
	ex.initSteps = ex.Instrs
	ex.Paths = 0
	return ex, spkgs, nil
}

func registerTemplates(ex *Exec) {
	I := ex.Intr
	I["text/template.New"] = func(ex *Exec, st *State, args []Value, call ssa.CallInstruction) (Value, bool) {
		id := st.alloc(&Object{V: Native{template.New(cstr(args[0]))}})
		return Ptr{Obj: id}, true
	}
	I["(*text/template.Template).Parse"] = func(ex *Exec, st *State, args []Value, call ssa.CallInstruction) (Value, bool) {
		t := ex.load(st, args[0].(Ptr)).(Native).V.(*template.Template)
		t2, err := t.Parse(cstr(args[1]))
		if err != nil {
			panic(err)
		}
		id := st.alloc(&Object{V: Native{t2}})
		return Tuple{Ptr{Obj: id}, Iface{}}, true
	}
	I["text/template.Must"] = func(ex *Exec, st *State, args []Value, call ssa.CallInstruction) (Value, bool) {
		return args[0], true
	}
}
