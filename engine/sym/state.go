package sym

import (
	"gosym/smt"

	"golang.org/x/tools/go/ssa"
)

type Heap struct {
	base  map[ObjID]*Object // frozen after init, shared by all states
	delta map[ObjID]*Object
}

func (h *Heap) get(id ObjID) *Object {
	if o, ok := h.delta[id]; ok {
		return o
	}
	return h.base[id]
}

func (h *Heap) put(id ObjID, o *Object) { h.delta[id] = o }

func (h *Heap) fork() Heap {
	d := make(map[ObjID]*Object, len(h.delta)+8)
	for k, v := range h.delta {
		d[k] = v
	}
	return Heap{h.base, d}
}

type DeferRec struct {
	Fn   Value
	Args []Value
	Site string
}

// SchedEvent is one visible operation (or pre-emption) of a schedule.
// accInfo is the Eraser lockset state of one heap object.
type accInfo struct {
	State   int8 // 0 exclusive, 1 shared, 2 shared-modified
	Owner   int
	Lockset []string
	Sites   []string // pass 1: every site that touched the object
}

type SchedEvent struct {
	G    int    `json:"g"`
	Site string `json:"site"`
	Kind string `json:"kind"` // op | preempt
	What string `json:"what"`
	Repo string `json:"repo,omitempty"` // innermost position inside the repository when Site lies outside it (module cache, std)
}

type Frame struct {
	Fn     *ssa.Function
	Info   *FuncInfo
	Block  *ssa.BasicBlock
	Prev   *ssa.BasicBlock
	IP     int
	Regs   []Value
	Defers []DeferRec
	// where to put the result in the caller (nil => discard)
	RetTo ssa.Value
	// set when this frame was entered to run a deferred call / goroutine entry
	IsDefer bool
	IsMemo  bool    // result goes to the caller's Memo; the caller re-executes its instruction
	Memo    []Value // results of helper calls requested by the instruction being executed
	MemoIdx int
	PinCount int
	PinBlock *ssa.BasicBlock
	PinIP    int
	Env     []Value
	Visits  map[*ssa.BasicBlock]int
	BackEdges int
}

func (f *Frame) clone() *Frame {
	c := *f
	c.Regs = make([]Value, len(f.Regs))
	copy(c.Regs, f.Regs)
	c.Defers = append([]DeferRec(nil), f.Defers...)
	c.Memo = append([]Value(nil), f.Memo...)
	if f.Visits != nil {
		c.Visits = make(map[*ssa.BasicBlock]int, len(f.Visits))
		for k, v := range f.Visits {
			c.Visits[k] = v
		}
	}
	return &c
}

type GStatus int

const (
	GRunnable GStatus = iota
	GBlockedSend
	GBlockedRecv
	GBlockedLock
	GBlockedCond
	GQuiesce
	GDone
)

type G struct {
	ID      int
	Frames  []*Frame
	Status  GStatus
	WaitCh  ObjID
	SendVal Value
	Panic   Value
	Paniced bool
	PanicMsg    string // message of the panic being unwound
	PanicWhere  string // where it was raised
	UnwindLevel int    // number of frames when the frame being unwound is on top
	PendingW    string // RWMutex key this goroutine is blocked on as a WRITER (a pending writer excludes new readers)
	Goexit      bool   // runtime.Goexit: deferred calls run frame by frame, then the goroutine ends (no panic)
	Recovered   bool   // a deferred call recovered the panic: finish the frame's defers, then leave through its recover block
	WaitKey   string
	NoYield   bool
	Slept     bool
	CondPhase int
	Retry     bool
	Held      []string
	VC        []int
}

func (g *G) clone() *G {
	c := *g
	c.Held = append([]string(nil), g.Held...)
	c.Frames = make([]*Frame, len(g.Frames))
	for i, f := range g.Frames {
		c.Frames[i] = f.clone()
	}
	return &c
}

type State struct {
	Heap    Heap
	Gs      []*G
	Cur     int
	PC      []*smt.Term
	NextObj ObjID
	Steps   int
	Nondet  []*smt.Term // nondet variables in order of creation
	Trace   []string
	Visits  map[*ssa.BasicBlock]int // loop head visit counts on this path (coarse)
	Locks      map[string]int
	Sched      bool
	Preempt    int
	MaxPreempt int
	SchedTrace []string
	Events     []SchedEvent
	Spin       int
	Model      map[string]uint64 // satisfies PC (nil = unknown)
	RacyOnly   bool
	Repl       map[string]Closure
	Once       map[string]bool // sync.Once objects whose function has run
	Eraser     bool
	Acc        map[ObjID]accInfo
	FreeChoices int
	MaxFree     int
	Dirty      map[ObjID]bool
	WriteSites map[string]bool
	Known      map[string]knownRec
	GBaseSet    bool
	HB          map[hbLoc]*hbInfo
	SyncVC      map[string][]int
	ReportRaces bool
	ReportHeapRaces bool
	GBase       int
	SchedVars   int
	PreemptTerm *smt.Term
	TermFuncs  map[string]int
	Nontriv    bool
}

func (s *State) fork() *State {
	c := *s
	c.Heap = s.Heap.fork()
	c.Gs = make([]*G, len(s.Gs))
	for i, g := range s.Gs {
		c.Gs[i] = g.clone()
	}
	c.PC = append([]*smt.Term(nil), s.PC...)
	c.Nondet = append([]*smt.Term(nil), s.Nondet...)
	c.Visits = make(map[*ssa.BasicBlock]int, len(s.Visits))
	for k, v := range s.Visits {
		c.Visits[k] = v
	}
	c.Locks = make(map[string]int, len(s.Locks))
	for k, v := range s.Locks {
		c.Locks[k] = v
	}
	c.SchedTrace = append([]string(nil), s.SchedTrace...)
	c.Events = append([]SchedEvent(nil), s.Events...)
	if s.Repl != nil {
		c.Repl = make(map[string]Closure, len(s.Repl))
		for k, v := range s.Repl {
			c.Repl[k] = v
		}
	}
	if s.Once != nil {
		c.Once = make(map[string]bool, len(s.Once))
		for k, v := range s.Once {
			c.Once[k] = v
		}
	}
	if s.Acc != nil {
		c.Acc = make(map[ObjID]accInfo, len(s.Acc))
		for k, v := range s.Acc {
			c.Acc[k] = v
		}
	}
	if s.Known != nil {
		c.Known = make(map[string]knownRec, len(s.Known))
		for k, v := range s.Known {
			c.Known[k] = v
		}
	}
	if s.HB != nil {
		c.HB = make(map[hbLoc]*hbInfo, len(s.HB))
		for k, v := range s.HB {
			c.HB[k] = v
		}
	}
	if s.SyncVC != nil {
		c.SyncVC = make(map[string][]int, len(s.SyncVC))
		for k, v := range s.SyncVC {
			c.SyncVC[k] = v
		}
	}
	if s.Dirty != nil {
		c.Dirty = make(map[ObjID]bool, len(s.Dirty))
		for k := range s.Dirty {
			c.Dirty[k] = true
		}
	}
	return &c
}

func (s *State) g() *G          { return s.Gs[s.Cur] }
func (s *State) frame() *Frame  { g := s.g(); return g.Frames[len(g.Frames)-1] }
func (s *State) alloc(o *Object) ObjID {
	s.NextObj++
	s.Heap.put(s.NextObj, o)
	return s.NextObj
}
