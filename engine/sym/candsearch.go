package sym

import (
	"math"

	"gosym/smt"
)

// candidateSearch is the fallback for an obligation the solver answers "unknown" (floating-point
// queries that time out): it looks for a counterexample by evaluating the path condition and the negated
// obligation under the current model with the free variables of the obligation replaced by values from a
// small pool.  It can only produce counterexamples (which are replayed natively like any other); an
// obligation it does not refute stays "unknown" and is reported as not discharged.
func (ex *Exec) candidateSearch(st *State, q *smt.Term) map[string]uint64 {
	base := st.Model
	if base == nil {
		r, m := ex.checkWithModel(st, ex.C.True)
		if r != smt.Sat {
			return nil
		}
		base = m
	}
	// free variables of q
	seen := map[int]bool{}
	var vars []*smt.Term
	var walk func(t *smt.Term)
	walk = func(t *smt.Term) {
		if seen[t.ID] {
			return
		}
		seen[t.ID] = true
		if t.Op == smt.OVar {
			vars = append(vars, t)
			return
		}
		for _, a := range t.Args {
			walk(a)
		}
	}
	walk(q)
	fpPool := []float64{0, 1, -1, 2, -2, 0.5, -0.5, 3, -3, 7, -7.5, 2.5, 10, 1e300, -1e300, math.Inf(1), math.NaN()}
	intPool := []int64{0, 1, -1, 2, -2, 3, -3, 5, -5, 7, -7, 15, -16}
	type dom struct {
		v    *smt.Term
		vals []uint64
	}
	var doms []dom
	for _, v := range vars {
		switch {
		case v.Sort.K == smt.KFP && v.Sort.W == 64:
			d := dom{v: v}
			for _, f := range fpPool {
				d.vals = append(d.vals, math.Float64bits(f))
			}
			doms = append(doms, d)
		case v.Sort.K == smt.KBV && v.Sort.W == 64:
			d := dom{v: v}
			for _, i := range intPool {
				d.vals = append(d.vals, uint64(i))
			}
			doms = append(doms, d)
		}
	}
	if len(doms) == 0 || len(doms) > 4 {
		return nil
	}
	m := make(map[string]uint64, len(base)+len(doms))
	for k, v := range base {
		m[k] = v
	}
	idx := make([]int, len(doms))
	tries := 0
	for {
		for i, d := range doms {
			m[d.v.Name] = d.vals[idx[i]]
		}
		tries++
		memo := map[int]uint64{}
		ok := true
		if v, good := smt.Eval(q, m, memo); !good || v != 1 {
			ok = false
		}
		if ok {
			for _, c := range st.PC {
				if v, good := smt.Eval(c, m, memo); !good || v != 1 {
					ok = false
					break
				}
			}
		}
		if ok {
			out := make(map[string]uint64, len(m))
			for k, v := range m {
				out[k] = v
			}
			return out
		}
		// next combination
		j := 0
		for ; j < len(idx); j++ {
			idx[j]++
			if idx[j] < len(doms[j].vals) {
				break
			}
			idx[j] = 0
		}
		if j == len(idx) || tries > 100000 {
			return nil
		}
	}
}
