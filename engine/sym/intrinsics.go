package sym

import (
	"fmt"
	"regexp"
	"regexp/syntax"
	"strconv"
	"strings"
	"unicode"

	"gosym/smt"

	"golang.org/x/tools/go/ssa"
)

const zz = "github.com/krotik/ecal/zzverif."

func (ex *Exec) nondet(st *State, label string, s smt.Sort) *smt.Term {
	name := label
	v := ex.C.Var(name, s)
	st.Nondet = append(st.Nondet, v)
	return v
}

func cstr(v Value) string {
	s, ok := v.(Str).Concrete()
	if !ok {
		panic("label must be concrete")
	}
	return s
}

// runeClass builds an SMT predicate for membership of a 32-bit rune term in a unicode range table
// restricted to < 0x800 (prototype) plus explicit extra ranges.
func (ex *Exec) inRanges(r *smt.Term, pred func(rune) bool, max rune) *smt.Term {
	C := ex.C
	res := C.False
	start := rune(-1)
	for c := rune(0); c <= max+1; c++ {
		in := c <= max && pred(c)
		if in && start < 0 {
			start = c
		}
		if !in && start >= 0 {
			lo, hi := C.BVConst(uint64(start), 32), C.BVConst(uint64(c-1), 32)
			res = C.Or(res, C.And(C.BVCmp(smt.OSle, lo, r), C.BVCmp(smt.OSle, r, hi)))
			start = -1
		}
	}
	return res
}

func registerIntrinsics(ex *Exec) {
	I := ex.Intr
	C := ex.C
	noop := func(ex *Exec, st *State, args []Value, call ssa.CallInstruction) (Value, bool) { return nil, true }

	// ---- harness API ----
	I[zz+"Byte"] = func(ex *Exec, st *State, args []Value, call ssa.CallInstruction) (Value, bool) {
		return ex.nondet(st, cstr(args[0]), smt.BV(8)), true
	}
	I[zz+"Int"] = func(ex *Exec, st *State, args []Value, call ssa.CallInstruction) (Value, bool) {
		return ex.nondet(st, cstr(args[0]), smt.BV(64)), true
	}
	I[zz+"Bool"] = func(ex *Exec, st *State, args []Value, call ssa.CallInstruction) (Value, bool) {
		return ex.nondet(st, cstr(args[0]), smt.Bool), true
	}
	I[zz+"Float64"] = func(ex *Exec, st *State, args []Value, call ssa.CallInstruction) (Value, bool) {
		return ex.nondet(st, cstr(args[0]), smt.FP64), true
	}
	I[zz+"Bytes"] = func(ex *Exec, st *State, args []Value, call ssa.CallInstruction) (Value, bool) {
		label := cstr(args[0])
		n := int(ex.concreteInt(st, args[1]))
		arr := make(Array, n)
		for i := range arr {
			arr[i] = ex.nondet(st, fmt.Sprintf("%s_%d", label, i), smt.BV(8))
		}
		id := st.alloc(&Object{V: arr})
		return Slice{id, 0, n, n}, true
	}
	// Len(label, lo, hi): a length in [lo,hi], split into one path per value
	I[zz+"Len"] = func(ex *Exec, st *State, args []Value, call ssa.CallInstruction) (Value, bool) {
		label := cstr(args[0])
		lo, hi := ex.concreteInt(st, args[1]), ex.concreteInt(st, args[2])
		v := ex.nondet(st, label, smt.BV(64))
		for x := lo; x <= hi; x++ {
			o := st.fork()
			o.PC = append(o.PC, C.Eq(v, C.BVConst(uint64(x), 64)))
			o.Model = nil
			f := o.frame()
			ex.set(f, call.(*ssa.Call), C.BVConst(uint64(x), 64))
			f.IP++
			ex.push(o)
		}
		ex.killed = true
		return nil, false
	}
	I[zz+"Choice"] = func(ex *Exec, st *State, args []Value, call ssa.CallInstruction) (Value, bool) {
		v := ex.nondet(st, cstr(args[0]), smt.BV(64))
		if !ex.assume(st, C.BVCmp(smt.OUlt, v, args[1].(*smt.Term))) {
			ex.endPath(st, "empty choice")
			ex.killed = true
			return nil, false
		}
		return v, true
	}
	I[zz+"Assume"] = func(ex *Exec, st *State, args []Value, call ssa.CallInstruction) (Value, bool) {
		if !ex.assume(st, args[0].(*smt.Term)) {
			ex.endPath(st, "assume false")
			ex.killed = true
			return nil, false
		}
		return nil, true
	}
	I[zz+"Assert"] = func(ex *Exec, st *State, args []Value, call ssa.CallInstruction) (Value, bool) {
		cond := args[0].(*smt.Term)
		ex.Obligations++
		if cond.IsConst() && cond.Val == 1 {
			ex.Trivial++
			return nil, true
		}
		st.Nontriv = true
		ex.report(st, "assert", cstr(args[1]), C.Not(cond))
		if !ex.assume(st, cond) {
			ex.endPath(st, "assert always fails")
			ex.killed = true
			return nil, false
		}
		return nil, true
	}
	I[zz+"SameFloat"] = func(ex *Exec, st *State, args []Value, call ssa.CallInstruction) (Value, bool) {
		a, b := args[0].(*smt.Term), args[1].(*smt.Term)
		return C.Eq(a, b), true // SMT "=": bit-level identity up to NaN payload; identical terms fold to true
	}
	I[zz+"Replace"] = func(ex *Exec, st *State, args []Value, call ssa.CallInstruction) (Value, bool) {
		if st.Repl == nil {
			st.Repl = map[string]Closure{}
		}
		st.Repl[cstr(args[0])] = args[1].(Iface).V.(Closure)
		return nil, true
	}
	// GODEBUG settings: none is set
	I["(*internal/godebug.Setting).Value"] = func(ex *Exec, st *State, args []Value, call ssa.CallInstruction) (Value, bool) {
		return ex.strConst(""), true
	}
	I["(*internal/godebug.Setting).IncNonDefault"] = func(ex *Exec, st *State, args []Value, call ssa.CallInstruction) (Value, bool) {
		return nil, true
	}
	I["strings.Contains"] = func(ex *Exec, st *State, args []Value, call ssa.CallInstruction) (Value, bool) {
		s, sub := args[0].(Str), args[1].(Str)
		n, m := len(s.B), len(sub.B)
		res := C.False
		for i := 0; i+m <= n; i++ {
			res = C.Or(res, ex.strEq(Str{s.B[i : i+m]}, sub))
		}
		return res, true
	}
	I[zz+"Reach"] = func(ex *Exec, st *State, args []Value, call ssa.CallInstruction) (Value, bool) {
		ex.Reached[cstr(args[0])]++
		if len(ex.Samples) < ex.SampleMax && st.Model != nil && ex.Reached[cstr(args[0])]%7 == 1 {
			m := map[string]uint64{}
			for k, v := range st.Model {
				m[k] = v
			}
			ex.Samples = append(ex.Samples, m)
		}
		return nil, true
	}
	I[zz+"Param"] = func(ex *Exec, st *State, args []Value, call ssa.CallInstruction) (Value, bool) {
		if v, ok := ex.Params[cstr(args[0])]; ok {
			return C.BVConst(uint64(v), 64), true
		}
		return args[1], true
	}
	I[zz+"Native"] = func(ex *Exec, st *State, args []Value, call ssa.CallInstruction) (Value, bool) {
		return C.False, true
	}
	// Known(name, label, cond): under cond, the listed known finding `name` explains findings whose
	// "kind: msg @ where" contains label.  No effect unless name is listed as active.
	I[zz+"Known"] = func(ex *Exec, st *State, args []Value, call ssa.CallInstruction) (Value, bool) {
		name := cstr(args[0])
		if !ex.KnownActive[name] {
			return nil, true
		}
		if st.Known == nil {
			st.Known = map[string]knownRec{}
		}
		c := args[2].(*smt.Term)
		st.Known[name] = knownRec{Label: cstr(args[1]), Cond: c}
		return nil, true
	}
	// OneOf(b, alphabet): membership as one Bool term (no branching)
	I[zz+"OneOf"] = func(ex *Exec, st *State, args []Value, call ssa.CallInstruction) (Value, bool) {
		b := args[0].(*smt.Term)
		res := C.False
		for _, c := range []byte(cstr(args[1])) {
			res = C.Or(res, C.Eq(b, C.BVConst(uint64(c), 8)))
		}
		return res, true
	}
	// LiveGoroutines: first call sets the baseline (returns 0); later calls let every other goroutine run
	// until it blocks or ends and return how many goroutines started since the baseline are still alive.
	I[zz+"LiveGoroutines"] = func(ex *Exec, st *State, args []Value, call ssa.CallInstruction) (Value, bool) {
		if !st.GBaseSet {
			st.GBaseSet = true
			st.GBase = len(st.Gs)
			return C.BVConst(0, 64), true
		}
		// yield until nobody else can run
		for _, g := range st.Gs {
			if g.ID != st.Cur && ex.runnable(g) {
				st.g().Status = GQuiesce
				return nil, false // re-executed when everything else is blocked or done
			}
		}
		n := 0
		for _, g := range st.Gs[st.GBase:] {
			if g.Status != GDone && !(g.Status == GRunnable && len(g.Frames) == 0) {
				n++
			}
		}
		return C.BVConst(uint64(n), 64), true
	}
	// Digest(label, text): translator self-test - the text a harness computed with concrete inputs is recorded and later
	// compared with what the same harness computes natively (tools/selftest.py)
	I[zz+"Digest"] = func(ex *Exec, st *State, args []Value, call ssa.CallInstruction) (Value, bool) {
		txt, ok := args[1].(Str).Concrete()
		if !ok {
			txt = "<not concrete>"
		}
		if ex.Digests != nil {
			ex.Digests[cstr(args[0])] = txt
		}
		return nil, true
	}
	I[zz+"Ite"] = func(ex *Exec, st *State, args []Value, call ssa.CallInstruction) (Value, bool) {
		return C.Ite(args[0].(*smt.Term), args[1].(*smt.Term), args[2].(*smt.Term)), true
	}
	I[zz+"Terminates"] = func(ex *Exec, st *State, args []Value, call ssa.CallInstruction) (Value, bool) {
		if st.TermFuncs == nil {
			st.TermFuncs = map[string]int{}
		}
		st.TermFuncs[cstr(args[0])] = int(ex.concreteInt(st, args[1]))
		return nil, true
	}

	// ---- sync: deterministic scheduler, no preemption => locks are no-ops (prototype) ----
	_ = noop

	// ---- unicode ----
	pred := func(f func(rune) bool) Intrinsic {
		return func(ex *Exec, st *State, args []Value, call ssa.CallInstruction) (Value, bool) {
			r := args[0].(*smt.Term)
			if r.IsConst() {
				return C.BoolConst(f(rune(int32(r.Val)))), true
			}
			return ex.inRanges(r, f, 0x2fff), true // prototype: exact below U+3000
		}
	}
	I["unicode.IsSpace"] = pred(unicode.IsSpace)
	I["unicode.IsControl"] = pred(unicode.IsControl)
	I["unicode.IsNumber"] = pred(unicode.IsNumber)
	I["unicode.IsLetter"] = pred(unicode.IsLetter)

	// ---- strings ----
	I["strings.ToLower"] = func(ex *Exec, st *State, args []Value, call ssa.CallInstruction) (Value, bool) {
		s := args[0].(Str)
		if cs, ok := s.Concrete(); ok {
			return ex.strConst(strings.ToLower(cs)), true
		}
		out := make([]*smt.Term, len(s.B))
		for i, b := range s.B {
			if b.IsConst() {
				if b.Val >= 0x80 {
					out[i] = b // kept as is (exact for caseless runes such as U+FFFD)
					ex.OverApprox["ToLower(const non-ASCII byte kept)"]++
				} else {
					out[i] = C.BVConst(uint64(strings.ToLower(string(rune(b.Val)))[0]), 8)
				}
				continue
			}
			if !ex.assume(st, C.BVCmp(smt.OUlt, b, C.BVConst(0x80, 8))) {
				ex.unsupported(st, "ToLower non-ASCII symbolic")
			}
			up := C.And(C.BVCmp(smt.OUle, C.BVConst('A', 8), b), C.BVCmp(smt.OUle, b, C.BVConst('Z', 8)))
			out[i] = C.Ite(up, C.BVBin(smt.OAdd, b, C.BVConst(32, 8)), b)
		}
		return Str{out}, true
	}
	I["strings.Replace"] = func(ex *Exec, st *State, args []Value, call ssa.CallInstruction) (Value, bool) {
		s, okS := args[0].(Str).Concrete()
		o, okO := args[1].(Str).Concrete()
		n, okN := args[2].(Str).Concrete()
		cnt := int(int64(args[3].(*smt.Term).Val))
		if okS && okO && okN {
			return ex.strConst(strings.Replace(s, o, n, cnt)), true
		}
		if cnt != 1 {
			ex.OverApprox["strings.Replace(symbolic,n!=1)"]++
			return args[0], true
		}
		// symbolic single replacement: split on the position of the first occurrence
		src, old, nw := args[0].(Str), args[1].(Str), args[2].(Str)
		m := len(old.B)
		idx := C.BVConst(^uint64(0), 64)
		for i := len(src.B) - m; i >= 0; i-- {
			idx = C.Ite(ex.strEq(Str{src.B[i : i+m]}, old), C.BVConst(uint64(i), 64), idx)
		}
		done := false
		// not found
		nf := C.Eq(idx, C.BVConst(^uint64(0), 64))
		for _, c := range ex.concretize(st, idx, 0, int64(len(src.B)-m)) {
			f := c.St.frame()
			res := append(append(append([]*smt.Term(nil), src.B[:c.V]...), nw.B...), src.B[int(c.V)+m:]...)
			ex.set(f, call.(*ssa.Call), Str{res})
			f.IP++
			ex.push(c.St)
		}
		if ex.assume(st, nf) {
			done = true
		}
		if !done {
			ex.killed = true
			return nil, false
		}
		return args[0], true
	}
	I["strings.Index"] = func(ex *Exec, st *State, args []Value, call ssa.CallInstruction) (Value, bool) {
		s, sub := args[0].(Str), args[1].(Str)
		n, m := len(s.B), len(sub.B)
		res := C.BVConst(^uint64(0), 64)
		for i := n - m; i >= 0; i-- {
			res = C.Ite(ex.strEq(Str{s.B[i : i+m]}, sub), C.BVConst(uint64(i), 64), res)
		}
		return res, true
	}

	// ---- regexp ----
	I["regexp.MustCompile"] = func(ex *Exec, st *State, args []Value, call ssa.CallInstruction) (Value, bool) {
		p := cstr(args[0])
		id := st.alloc(&Object{V: Native{regexp.MustCompile(p)}})
		return Ptr{Obj: id}, true
	}
	I["(*regexp.Regexp).MatchString"] = func(ex *Exec, st *State, args []Value, call ssa.CallInstruction) (Value, bool) {
		re := ex.load(st, args[0].(Ptr)).(Native).V.(*regexp.Regexp)
		s := args[1].(Str)
		if cs, ok := s.Concrete(); ok {
			return C.BoolConst(re.MatchString(cs)), true
		}
		return ex.regexMatch(st, re.String(), s), true
	}

	// ---- strconv ----
	I["strconv.ParseFloat"] = func(ex *Exec, st *State, args []Value, call ssa.CallInstruction) (Value, bool) {
		s := args[0].(Str)
		if cs, ok := s.Concrete(); ok {
			f, err := strconv.ParseFloat(cs, 64)
			var e Value = Iface{}
			if err != nil {
				e = ex.nativeError(st, err.Error())
			}
			return Tuple{C.FPConst(f), e}, true
		}
		ex.OverApprox["strconv.ParseFloat(symbolic)"]++
		okv := ex.nondet(st, fmt.Sprintf("parsefloat_ok_%d", len(st.Nondet)), smt.Bool)
		tst, fst := ex.branch(st, okv, nil)
		f := ex.nondet(st, fmt.Sprintf("parsefloat_val_%d", len(st.Nondet)), smt.FP64)
		if fst != nil && fst != st {
			fr := fst.frame()
			ex.set(fr, call.(*ssa.Call), Tuple{C.FPConst(0), ex.nativeError(fst, "parse error")})
			fr.IP++
			ex.push(fst)
		}
		if tst == nil {
			return Tuple{C.FPConst(0), ex.nativeError(st, "parse error")}, true
		}
		return Tuple{f, Iface{}}, true
	}
	I["strconv.Unquote"] = func(ex *Exec, st *State, args []Value, call ssa.CallInstruction) (Value, bool) {
		s := args[0].(Str)
		if cs, ok := s.Concrete(); ok {
			r, err := strconv.Unquote(cs)
			var e Value = Iface{}
			if err != nil {
				e = ex.nativeError(st, err.Error())
			}
			return Tuple{ex.strConst(r), e}, true
		}
		ex.OverApprox["strconv.Unquote(symbolic)"]++
		okv := ex.nondet(st, fmt.Sprintf("unquote_ok_%d", len(st.Nondet)), smt.Bool)
		tst, fst := ex.branch(st, okv, nil)
		if fst != nil && fst != st {
			fr := fst.frame()
			ex.set(fr, call.(*ssa.Call), Tuple{Str{}, ex.nativeError(fst, "invalid syntax")})
			fr.IP++
			ex.push(fst)
		}
		if tst == nil {
			return Tuple{Str{}, ex.nativeError(st, "invalid syntax")}, true
		}
		inner := s.B
		if len(inner) >= 2 {
			inner = inner[1 : len(inner)-1]
		}
		return Tuple{Str{inner}, Iface{}}, true
	}

	// ---- fmt ----
	registerNative(ex)
	registerNative2(ex)
	registerNative3(ex)
	registerSync(ex)
	registerFmt(ex)
	registerConcretizing(ex)
	registerBytealg(ex)
	registerJSON(ex)
	registerReflect(ex)
}

// nativeError builds an error value (*errors.errorString) for a message.
func (ex *Exec) nativeError(st *State, msg string) Value {
	pkg := ex.Prog.ImportedPackage("errors")
	t := pkg.Type("errorString")
	id := st.alloc(&Object{V: Struct{ex.strConst(msg)}})
	return Iface{T: typesPointer(t.Type()), V: Ptr{Obj: id}}
}

// regexMatch unrolls the compiled program of pattern over the symbolic ASCII string s.
func (ex *Exec) regexMatch(st *State, pattern string, s Str) *smt.Term {
	C := ex.C
	re, err := syntax.Parse(pattern, syntax.Perl)
	if err != nil {
		ex.unsupported(st, "regexp parse")
	}
	prog, err := syntax.Compile(re.Simplify())
	if err != nil {
		ex.unsupported(st, "regexp compile")
	}
	n := len(s.B)
	// closure of states reachable by empty transitions at position pos
	var addState func(set map[int]*smt.Term, pc int, cond *smt.Term, pos int, depth int)
	addState = func(set map[int]*smt.Term, pc int, cond *smt.Term, pos int, depth int) {
		if cond.IsConst() && cond.Val == 0 || depth > 1000 {
			return
		}
		in := &prog.Inst[pc]
		switch in.Op {
		case syntax.InstAlt, syntax.InstAltMatch:
			addState(set, int(in.Out), cond, pos, depth+1)
			addState(set, int(in.Arg), cond, pos, depth+1)
		case syntax.InstNop, syntax.InstCapture:
			addState(set, int(in.Out), cond, pos, depth+1)
		case syntax.InstEmptyWidth:
			ok := true
			e := syntax.EmptyOp(in.Arg)
			if e&syntax.EmptyBeginText != 0 && pos != 0 {
				ok = false
			}
			if e&syntax.EmptyEndText != 0 && pos != n {
				ok = false
			}
			if e&^(syntax.EmptyBeginText|syntax.EmptyEndText) != 0 {
				ex.unsupported(st, "regexp empty-width op")
			}
			if ok {
				addState(set, int(in.Out), cond, pos, depth+1)
			}
		case syntax.InstFail:
		default:
			if old, ok := set[pc]; ok {
				set[pc] = C.Or(old, cond)
			} else {
				set[pc] = cond
			}
		}
	}
	matched := C.False
	cur := map[int]*smt.Term{}
	addState(cur, prog.Start, C.True, 0, 0)
	for pos := 0; pos <= n; pos++ {
		next := map[int]*smt.Term{}
		for pc, cond := range cur {
			in := &prog.Inst[pc]
			switch in.Op {
			case syntax.InstMatch:
				matched = C.Or(matched, cond)
			case syntax.InstRune, syntax.InstRune1, syntax.InstRuneAny, syntax.InstRuneAnyNotNL:
				if pos == n {
					continue
				}
				b := s.B[pos]
				var m *smt.Term
				switch in.Op {
				case syntax.InstRuneAny:
					m = C.True
				case syntax.InstRuneAnyNotNL:
					m = C.Not(C.Eq(b, C.BVConst('\n', 8)))
				default:
					m = C.False
					rs := in.Rune
					if len(rs) == 1 {
						rs = []rune{rs[0], rs[0]}
					}
					for i := 0; i+1 < len(rs); i += 2 {
						lo, hi := rs[i], rs[i+1]
						if lo > 0x7f {
							continue
						}
						if hi > 0x7f {
							hi = 0x7f
						}
						m = C.Or(m, C.And(C.BVCmp(smt.OUle, C.BVConst(uint64(lo), 8), b), C.BVCmp(smt.OUle, b, C.BVConst(uint64(hi), 8))))
					}
					if syntax.Flags(in.Arg)&syntax.FoldCase != 0 {
						ex.unsupported(st, "regexp foldcase")
					}
				}
				addState(next, int(in.Out), C.And(cond, m), pos+1, 0)
			}
		}
		if pos < n {
			// unanchored search: a match may start at any position unless the pattern begins with ^ (handled by EmptyWidth)
			addState(next, prog.Start, C.True, pos+1, 0)
		}
		cur = next
	}
	return matched
}
