package sym

import (
	"fmt"
	"strings"

	"gosym/smt"

	"golang.org/x/tools/go/ssa"
)

func lockKey(p Ptr) string { return fmt.Sprintf("%d/%v", p.Obj, p.Path) }

func (ex *Exec) runnable(g *G) bool { return g.Status == GRunnable && len(g.Frames) > 0 }

// visible is called at the start of every visible operation of the current goroutine.
func (ex *Exec) visible(st *State, what string) { ex.visibleOp(st, what, false) }

// globalAccess is called before a load/store/lookup/update of heap object id (sub: first path element, -1 for maps).
func (ex *Exec) globalAccess(st *State, id ObjID, sub int, write bool) {
	if ex.InitMode || !st.Eraser || ex.noTrack {
		return
	}
	if ex.UseRacySites {
		// pass 2: accesses at sites the discovery pass reported are visible operations
		site := ex.whereSite(st)
		if ex.RacySites[site] {
			ex.curSite = site
			ex.visibleOp(st, accessName(write, id), true)
		}
		return
	}
	ex.hbAccess(st, id, sub, write)
}

func accessName(write bool, id ObjID) string {
	if write {
		return fmt.Sprintf("write obj%d", id)
	}
	return fmt.Sprintf("read obj%d", id)
}

// ---- happens-before race discovery (pass 1) ----
//
// Vector clocks per goroutine; edges: go statement, mutex unlock->lock, RWMutex, channel send/close->receive,
// WaitGroup Done->Wait, Cond Signal/Broadcast->wake-up, atomic operations.  Two accesses to the same location
// (object, first path element), at least one a write, not ordered by happens-before, make both sites racy.
// The report is a candidate list for pass 2 (pre-emption points); for package-level state it is also a
// "race" finding that has to be confirmed by Go's race detector on native replay.

type hbLoc struct {
	Obj ObjID
	Sub int
}

type hbEpoch struct {
	G     int
	Clock int
	Site  string
}

type hbInfo struct {
	W      hbEpoch   // last write (G<0: none)
	Reads  []hbEpoch // reads since the last write, one per goroutine
	Locked bool      // some earlier access held a lock
	Locks  []string  // intersection of the locks held at the accesses that held one
}

func vcGet(vc []int, g int) int {
	if g < len(vc) {
		return vc[g]
	}
	return 0
}

func vcJoin(a, b []int) []int {
	n := len(a)
	if len(b) > n {
		n = len(b)
	}
	out := make([]int, n)
	for i := range out {
		x, y := vcGet(a, i), vcGet(b, i)
		if y > x {
			x = y
		}
		out[i] = x
	}
	return out
}

func (g *G) tick() {
	for len(g.VC) <= g.ID {
		g.VC = append(g.VC, 0)
	}
	vc := append([]int(nil), g.VC...)
	vc[g.ID]++
	g.VC = vc
}

// hbRelease publishes the current goroutine's clock on sync object key; hbAcquire imports it.
func (ex *Exec) hbRelease(st *State, key string) {
	if !st.Eraser || ex.UseRacySites {
		return
	}
	g := st.g()
	if st.SyncVC == nil {
		st.SyncVC = map[string][]int{}
	}
	if len(g.VC) == 0 {
		g.tick()
	}
	st.SyncVC[key] = vcJoin(st.SyncVC[key], g.VC)
	g.tick()
}

func (ex *Exec) hbAcquire(st *State, key string) {
	if !st.Eraser || ex.UseRacySites {
		return
	}
	g := st.g()
	if vc, ok := st.SyncVC[key]; ok {
		g.VC = vcJoin(g.VC, vc)
	}
}

func (ex *Exec) hbFork(st *State, parent, child *G) {
	if !st.Eraser || ex.UseRacySites {
		return
	}
	if len(parent.VC) == 0 {
		parent.tick()
	}
	child.VC = append([]int(nil), parent.VC...)
	child.tick()
	parent.tick()
}

func (ex *Exec) hbAccess(st *State, id ObjID, sub int, write bool) {
	g := st.g()
	if len(g.VC) == 0 {
		g.tick()
	}
	if st.HB == nil {
		st.HB = map[hbLoc]*hbInfo{}
	}
	loc := hbLoc{id, sub}
	site := ex.whereSite(st)
	cur := hbEpoch{g.ID, vcGet(g.VC, g.ID), site}
	info, ok := st.HB[loc]
	if !ok {
		ni := &hbInfo{W: hbEpoch{G: -1}}
		if write {
			ni.W = cur
		} else {
			ni.Reads = []hbEpoch{cur}
		}
		st.HB[loc] = ni
		return
	}
	ordered := func(e hbEpoch) bool { return e.G < 0 || e.G == g.ID || e.Clock <= vcGet(g.VC, e.G) }
	var conflicts []hbEpoch
	if !ordered(info.W) {
		conflicts = append(conflicts, info.W)
	}
	if write {
		for _, r := range info.Reads {
			if !ordered(r) {
				conflicts = append(conflicts, r)
			}
		}
	}
	ni := &hbInfo{W: info.W, Locked: info.Locked, Locks: info.Locks}
	// lock discipline (candidate generator only): a location that was accessed under a lock and is now accessed
	// with no lock in common is a pre-emption point for pass 2, even if this schedule happened to order the
	// accesses (e.g. because one goroutine did all the work)
	if len(g.Held) > 0 {
		if !ni.Locked {
			ni.Locked, ni.Locks = true, append([]string(nil), g.Held...)
		} else {
			ni.Locks = intersect(ni.Locks, g.Held)
		}
	} else if ni.Locked {
		ex.sh.mu.Lock()
		ex.RacySites[site] = true
		ex.sh.mu.Unlock()
	}
	if write {
		ni.W = cur
	} else {
		for _, r := range info.Reads {
			if r.G != g.ID {
				ni.Reads = append(ni.Reads, r)
			}
		}
		ni.Reads = append(ni.Reads, cur)
	}
	st.HB[loc] = ni
	if len(conflicts) == 0 {
		return
	}
	ex.sh.mu.Lock()
	ex.RacySites[site] = true
	for _, c := range conflicts {
		ex.RacySites[c.Site] = true
	}
	ex.sh.mu.Unlock()
	inCode := func(s string) bool {
		return !strings.Contains(s, "zz_verif_") && !strings.Contains(s, "/zzverif/") && s != "?"
	}
	// heap objects: only races between two goroutines the code under test started (the harness goroutine reads
	// results through unsynchronised getters after a grace period; that is the harness's business, not a finding)
	if st.ReportRaces && (id <= ex.BaseMax || (st.ReportHeapRaces && inCode(site) && inCode(conflicts[0].Site) && g.ID != 0 && conflicts[0].G != 0)) {
		name := ex.GlobalNames[id]
		if name == "" {
			if id <= ex.BaseMax {
				name = fmt.Sprintf("package-level object %d", id)
			} else {
				// heap object: identify the race by its two code sites (order independent)
				a, b := site, conflicts[0].Site
				if b < a {
					a, b = b, a
				}
				name = "heap object accessed at " + a + " and " + b
			}
		}
		if !strings.Contains(name, "zzverif") {
			if ex.raceSeen == nil {
				ex.raceSeen = map[string]int{}
			}
			ex.raceSeen[name]++
			if ex.raceSeen[name] <= 3 { // a few witnesses per object and worker are enough
				st.SchedTrace = append(st.SchedTrace, fmt.Sprintf("RACE on %s: g%d @ %s vs g%d @ %s", name, g.ID, site, conflicts[0].G, conflicts[0].Site))
				ex.report(st, "race", "unsynchronised concurrent access to "+name, nil)
			}
		}
	}
}

func (ex *Exec) visibleOp(st *State, what string, racy bool) {
	g := st.g()
	if g.Retry { // re-execution of an operation that blocked: not a new arrival
		g.Retry = false
		g.NoYield = false
		return
	}
	if st.Sched && (!st.RacyOnly || racy) && !g.NoYield && st.Preempt < st.MaxPreempt {
		var others []*G
		for _, o := range st.Gs {
			if o.ID != g.ID && ex.runnable(o) && !o.Slept {
				others = append(others, o)
			}
		}
		if len(others) > 0 {
			// the scheduling decision is a symbolic variable ranging over the enabled goroutines; the
			// pre-emption budget is a constraint on the sum of decisions that differ from the running one
			C := ex.C
			st.SchedVars++
			v := ex.nondet(st, fmt.Sprintf("sched_%d", st.SchedVars), smt.BV(8))
			dom := C.Eq(v, C.BVConst(uint64(g.ID), 8))
			for _, o := range others {
				dom = C.Or(dom, C.Eq(v, C.BVConst(uint64(o.ID), 8)))
			}
			if st.PreemptTerm == nil {
				st.PreemptTerm = C.BVConst(0, 8)
			}
			cnt := C.BVBin(smt.OAdd, st.PreemptTerm, C.Ite(C.Eq(v, C.BVConst(uint64(g.ID), 8)), C.BVConst(0, 8), C.BVConst(1, 8)))
			budget := C.BVCmp(smt.OUle, cnt, C.BVConst(uint64(st.MaxPreempt), 8))
			base := append(append([]*smt.Term(nil), st.PC...), dom, budget)
			for _, o := range others {
				pick := C.Eq(v, C.BVConst(uint64(o.ID), 8))
				if r := ex.S.Check(base, pick); r == smt.Unsat {
					continue
				} else if r == smt.Sat {
					ex.S.Done()
				}
				f := st.fork()
				f.PC = append(f.PC, dom, budget, pick)
				f.PreemptTerm = cnt
				f.Model = nil
				f.Gs[g.ID].NoYield = true
				f.Cur = o.ID
				f.Preempt++
				f.SchedTrace = append(f.SchedTrace, fmt.Sprintf("preempt g%d before %s -> g%d", g.ID, what, o.ID))
				f.Events = append(f.Events, SchedEvent{G: g.ID, Site: ex.curSite, Kind: "preempt", What: what, Repo: ex.repoSite(st)})
				ex.push(f)
				ex.Forks++
			}
			st.PC = append(st.PC, dom, budget, C.Eq(v, C.BVConst(uint64(g.ID), 8)))
			st.PreemptTerm = cnt
			if st.Model != nil {
				m := make(map[string]uint64, len(st.Model)+1)
				for k, x := range st.Model {
					m[k] = x
				}
				m[v.Name] = uint64(g.ID)
				st.Model = m
			}
		}
	}
	g.NoYield = false
	// progress: sleepers may be rescheduled
	for _, o := range st.Gs {
		if o.ID != g.ID {
			o.Slept = false
		}
	}
	st.Spin = 0
	if st.Sched {
		st.SchedTrace = append(st.SchedTrace, fmt.Sprintf("g%d %s", g.ID, what))
		st.Events = append(st.Events, SchedEvent{G: g.ID, Site: ex.curSite, Kind: "op", What: what, Repo: ex.repoSite(st)})
	}
}

func (ex *Exec) blockOn(st *State, status GStatus, key string) (Value, bool) {
	g := st.g()
	if status == GBlockedLock {
		g.Retry = true
	}
	if st.Sched {
		st.Events = append(st.Events, SchedEvent{G: g.ID, Site: ex.curSite, Kind: "blocked"})
	}
	g.Status = status
	g.WaitKey = key
	return nil, false
}

func (ex *Exec) tryLock(st *State, key string) bool {
	if st.Locks == nil {
		st.Locks = map[string]int{}
	}
	if st.Locks[key] != 0 {
		return false
	}
	st.Locks[key] = st.g().ID + 1
	st.g().Held = append(st.g().Held, key)
	ex.hbAcquire(st, key)
	ex.hbAcquire(st, "r"+key)
	return true
}

func (ex *Exec) unlock(st *State, key string) {
	if st.Locks[key] == 0 {
		ex.goPanic(st, "sync: unlock of unlocked mutex")
	}
	ex.hbRelease(st, key)
	st.Locks[key] = 0
	if g := st.g(); true {
		for i, k := range g.Held {
			if k == key {
				g.Held = append(append([]string(nil), g.Held[:i]...), g.Held[i+1:]...)
				break
			}
		}
	}
	for _, o := range st.Gs {
		if o.Status == GBlockedLock && o.WaitKey == key {
			o.Status = GRunnable
			o.NoYield = true
		}
	}
}

func registerSync(ex *Exec) {
	registerAtomic(ex)
	I := ex.Intr
	lock := func(name string) Intrinsic {
		return func(ex *Exec, st *State, args []Value, call ssa.CallInstruction) (Value, bool) {
			key := lockKey(args[0].(Ptr))
			ex.visible(st, name+" "+key)
			if ex.tryLock(st, key) {
				return nil, true
			}
			return ex.blockOn(st, GBlockedLock, key)
		}
	}
	unlock := func(name string) Intrinsic {
		return func(ex *Exec, st *State, args []Value, call ssa.CallInstruction) (Value, bool) {
			key := lockKey(args[0].(Ptr))
			ex.visible(st, name+" "+key)
			ex.unlock(st, key)
			return nil, true
		}
	}
	// sync.Once: the function runs on the first Do of the object (a second goroutine calling Do while the first is
	// still inside does not wait - adequate for the single-goroutine uses in the interpreted standard library)
	I["(*sync.Once).Do"] = func(ex *Exec, st *State, args []Value, call ssa.CallInstruction) (Value, bool) {
		fr := st.frame()
		if fr.MemoIdx < len(fr.Memo) {
			fr.MemoIdx++
			return nil, true
		}
		key := lockKey(args[0].(Ptr))
		if st.Once[key] {
			return nil, true
		}
		if st.Once == nil {
			st.Once = map[string]bool{}
		}
		st.Once[key] = true
		cl, ok := args[1].(Closure)
		if !ok || cl.Fn == nil {
			ex.goPanic(st, "sync.Once.Do of nil function")
			return nil, false
		}
		return ex.helperCall(st, cl.Fn, nil, cl.Env)
	}
	I["(*sync.Mutex).Lock"] = lock("Lock")
	I["(*sync.Mutex).Unlock"] = unlock("Unlock")
	I["(*sync.RWMutex).Lock"] = func(ex *Exec, st *State, args []Value, call ssa.CallInstruction) (Value, bool) {
		key := lockKey(args[0].(Ptr))
		ex.visible(st, "Lock "+key)
		g := st.g()
		if st.Locks["r"+key] == 0 && ex.tryLock(st, key) {
			if g.PendingW == key {
				g.PendingW = ""
				st.Locks["w"+key]--
			}
			return nil, true
		}
		// sync.RWMutex: a blocked Lock call excludes new readers from acquiring the lock (no reader may expect to get a read
		// lock while a writer waits - a goroutine that read-locks twice dead-locks when a writer arrives in between)
		if g.PendingW != key {
			g.PendingW = key
			st.Locks["w"+key]++
		}
		return ex.blockOn(st, GBlockedLock, key)
	}
	I["(*sync.RWMutex).Unlock"] = unlock("Unlock")
	I["(*sync.RWMutex).RLock"] = func(ex *Exec, st *State, args []Value, call ssa.CallInstruction) (Value, bool) {
		key := lockKey(args[0].(Ptr))
		ex.visible(st, "RLock "+key)
		if st.Locks == nil {
			st.Locks = map[string]int{}
		}
		if st.Locks[key] == 0 && st.Locks["w"+key] == 0 {
			st.Locks["r"+key]++
			st.g().Held = append(st.g().Held, "r"+key)
			ex.hbAcquire(st, key)
			return nil, true
		}
		return ex.blockOn(st, GBlockedLock, key)
	}
	I["(*sync.RWMutex).RUnlock"] = func(ex *Exec, st *State, args []Value, call ssa.CallInstruction) (Value, bool) {
		key := lockKey(args[0].(Ptr))
		ex.visible(st, "RUnlock "+key)
		if st.Locks["r"+key] == 0 {
			ex.goPanic(st, "sync: RUnlock of unlocked RWMutex")
		}
		ex.hbRelease(st, "r"+key)
		st.Locks["r"+key]--
		g := st.g()
		for i, k := range g.Held {
			if k == "r"+key {
				g.Held = append(append([]string(nil), g.Held[:i]...), g.Held[i+1:]...)
				break
			}
		}
		if st.Locks["r"+key] == 0 {
			for _, o := range st.Gs {
				if o.Status == GBlockedLock && o.WaitKey == key {
					o.Status = GRunnable
					o.NoYield = true
				}
			}
		}
		return nil, true
	}
	tryLockI := func(ex *Exec, st *State, args []Value, call ssa.CallInstruction) (Value, bool) {
		key := lockKey(args[0].(Ptr))
		ex.visible(st, "TryLock "+key)
		if st.Locks["r"+key] == 0 && ex.tryLock(st, key) {
			return ex.C.True, true
		}
		return ex.C.False, true
	}
	I["(*sync.Mutex).TryLock"] = tryLockI
	I["(*sync.RWMutex).TryLock"] = tryLockI

	I["sync.NewCond"] = func(ex *Exec, st *State, args []Value, call ssa.CallInstruction) (Value, bool) {
		t := ex.Prog.ImportedPackage("sync").Type("Cond").Type()
		v := ex.zero(t).(Struct)
		v[1] = args[0] // field L
		id := st.alloc(&Object{V: v})
		return Ptr{Obj: id}, true
	}
	condL := func(ex *Exec, st *State, c Ptr) string {
		l := ex.load(st, c.field(1)).(Iface)
		return lockKey(l.V.(Ptr))
	}
	I["(*sync.Cond).Wait"] = func(ex *Exec, st *State, args []Value, call ssa.CallInstruction) (Value, bool) {
		c := args[0].(Ptr)
		g := st.g()
		ck := "cond" + lockKey(c)
		lk := condL(ex, st, c)
		if g.CondPhase == 0 {
			ex.visible(st, "Wait "+ck)
			ex.unlock(st, lk)
			g.CondPhase = 1
			return ex.blockOn(st, GBlockedCond, ck)
		}
		// woken: re-acquire L
		if ex.tryLock(st, lk) {
			ex.hbAcquire(st, ck)
			g.CondPhase = 0
			if st.Sched {
				st.SchedTrace = append(st.SchedTrace, fmt.Sprintf("g%d woke from %s", g.ID, ck))
			}
			return nil, true
		}
		return ex.blockOn(st, GBlockedLock, lk)
	}
	wakeCond := func(st *State, ck string, all bool) {
		for _, o := range st.Gs {
			if o.Status == GBlockedCond && o.WaitKey == ck {
				o.Status = GRunnable
				o.CondPhase = 2
				o.NoYield = true
				if !all {
					return
				}
			}
		}
	}
	I["(*sync.Cond).Signal"] = func(ex *Exec, st *State, args []Value, call ssa.CallInstruction) (Value, bool) {
		ck := "cond" + lockKey(args[0].(Ptr))
		ex.visible(st, "Signal "+ck)
		ex.hbRelease(st, ck)
		wakeCond(st, ck, false)
		return nil, true
	}
	I["(*sync.Cond).Broadcast"] = func(ex *Exec, st *State, args []Value, call ssa.CallInstruction) (Value, bool) {
		ck := "cond" + lockKey(args[0].(Ptr))
		ex.visible(st, "Broadcast "+ck)
		ex.hbRelease(st, ck)
		wakeCond(st, ck, true)
		return nil, true
	}
	I["(*sync.WaitGroup).Add"] = func(ex *Exec, st *State, args []Value, call ssa.CallInstruction) (Value, bool) {
		key := "wg" + lockKey(args[0].(Ptr))
		ex.visible(st, "wg.Add "+key)
		if st.Locks == nil {
			st.Locks = map[string]int{}
		}
		if int64(args[1].(*smt.Term).Val) < 0 {
			ex.hbRelease(st, key)
		}
		st.Locks[key] += int(int64(args[1].(*smt.Term).Val))
		if st.Locks[key] == 0 {
			for _, o := range st.Gs {
				if o.Status == GBlockedLock && o.WaitKey == key {
					o.Status = GRunnable
					o.NoYield = true
				}
			}
		}
		return nil, true
	}
	I["(*sync.WaitGroup).Done"] = func(ex *Exec, st *State, args []Value, call ssa.CallInstruction) (Value, bool) {
		key := "wg" + lockKey(args[0].(Ptr))
		ex.visible(st, "wg.Done "+key)
		ex.hbRelease(st, key)
		st.Locks[key]--
		if st.Locks[key] < 0 {
			ex.goPanic(st, "sync: negative WaitGroup counter")
		}
		if st.Locks[key] == 0 {
			for _, o := range st.Gs {
				if o.Status == GBlockedLock && o.WaitKey == key {
					o.Status = GRunnable
					o.NoYield = true
				}
			}
		}
		return nil, true
	}
	I["(*sync.WaitGroup).Wait"] = func(ex *Exec, st *State, args []Value, call ssa.CallInstruction) (Value, bool) {
		key := "wg" + lockKey(args[0].(Ptr))
		ex.visible(st, "wg.Wait "+key)
		if st.Locks[key] == 0 {
			ex.hbAcquire(st, key)
			return nil, true
		}
		return ex.blockOn(st, GBlockedLock, key)
	}
	I["math/rand.Intn"] = func(ex *Exec, st *State, args []Value, call ssa.CallInstruction) (Value, bool) {
		n := args[0].(*smt.Term)
		v := ex.nondet(st, fmt.Sprintf("rand_%d", len(st.Nondet)), smt.BV(64))
		if !ex.assume(st, ex.C.BVCmp(smt.OUlt, v, n)) {
			ex.goPanic(st, "invalid argument to Intn")
		}
		return v, true
	}
	I["time.Sleep"] = func(ex *Exec, st *State, args []Value, call ssa.CallInstruction) (Value, bool) {
		ex.visible(st, "Sleep")
		st.g().Slept = true
		ex.yieldNow = true
		return nil, true
	}
	I[zz+"Schedule"] = func(ex *Exec, st *State, args []Value, call ssa.CallInstruction) (Value, bool) {
		st.Sched = true
		st.MaxPreempt = int(args[0].(*smt.Term).Val)
		st.MaxFree = 2
		if ex.TwoPass {
			// combined mode: every sync operation is a pre-emption point and so is every access at a site the
			// happens-before pass reported (pass 1 runs without pre-emptions and only collects those sites)
			st.Eraser = true
			if !ex.UseRacySites {
				st.MaxPreempt = ex.Pass1Preempt
				st.MaxFree = 0
			}
		}
		return nil, true
	}
	I[zz+"ScheduleEraser"] = func(ex *Exec, st *State, args []Value, call ssa.CallInstruction) (Value, bool) {
		st.Sched = true
		st.RacyOnly = true // pre-empt only at accesses to objects whose lockset became empty
		st.Eraser = true
		st.MaxPreempt = int(args[0].(*smt.Term).Val)
		if !ex.UseRacySites && ex.TwoPass {
			st.MaxPreempt = ex.Pass1Preempt // discovery pass: the lockset check does not need pre-emptions
		}
		return nil, true
	}
	I["runtime.Goexit"] = func(ex *Exec, st *State, args []Value, call ssa.CallInstruction) (Value, bool) {
		ex.beginUnwind(st, "goexit", nil)
		st.g().Goexit = true
		return nil, false // the run loop takes over: deferred calls, then the goroutine ends
	}
	I[zz+"ReportRaces"] = func(ex *Exec, st *State, args []Value, call ssa.CallInstruction) (Value, bool) {
		st.ReportRaces = true // package-level state only
		return nil, true
	}
	I[zz+"ReportHeapRaces"] = func(ex *Exec, st *State, args []Value, call ssa.CallInstruction) (Value, bool) {
		st.ReportRaces, st.ReportHeapRaces = true, true // also heap objects, when both goroutines were started by the code under test
		return nil, true
	}
	I[zz+"ScheduleRacy"] = func(ex *Exec, st *State, args []Value, call ssa.CallInstruction) (Value, bool) {
		st.Sched = true
		st.RacyOnly = true
		st.MaxPreempt = int(args[0].(*smt.Term).Val)
		return nil, true
	}
	I[zz+"Quiesce"] = func(ex *Exec, st *State, args []Value, call ssa.CallInstruction) (Value, bool) {
		st.g().Status = GQuiesce
		return nil, true // IP advances; goroutine resumes when everything else is blocked
	}
}

// pickNext chooses the next goroutine when the current one cannot continue; forks over alternatives.
func (ex *Exec) pickNext(st *State) bool {
	var cands []int
	for _, g := range st.Gs {
		if g.Status == GRunnable && len(g.Frames) == 0 {
			g.Status = GDone
		}
		if ex.runnable(g) && !g.Slept {
			cands = append(cands, g.ID)
		}
	}
	if len(cands) == 0 {
		// only sleepers left?
		for _, g := range st.Gs {
			if ex.runnable(g) && g.Slept {
				cands = append(cands, g.ID)
			}
		}
		if len(cands) > 0 {
			st.Spin++
			if st.Spin > 3 {
				cands = nil // polling forever without progress: treat as blocked
			}
		}
	}
	if len(cands) == 0 {
		for _, g := range st.Gs {
			if g.Status == GQuiesce {
				g.Status = GRunnable
				st.Cur = g.ID
				if st.Sched {
					st.SchedTrace = append(st.SchedTrace, "quiescent")
				}
				return true
			}
		}
		return false
	}
	if st.Sched && (st.RacyOnly || st.FreeChoices >= st.MaxFree) && len(cands) > 1 {
		// deterministic round robin: first candidate after the current goroutine
		pick := cands[0]
		for _, c := range cands {
			if c > st.Cur {
				pick = c
				break
			}
		}
		st.Cur = pick
		return true
	}
	if st.Sched {
		if len(cands) > 1 {
			st.FreeChoices++
		}
		for _, c := range cands[1:] {
			f := st.fork()
			f.Cur = c
			f.SchedTrace = append(f.SchedTrace, fmt.Sprintf("switch -> g%d", c))
			ex.push(f)
			ex.Forks++
		}
	}
	st.Cur = cands[0]
	return true
}

// sync/atomic: read-modify-write executed in one step, ordered by happens-before through the address.
func registerAtomic(ex *Exec) {
	I := ex.Intr
	atomicOp := func(name string, f func(ex *Exec, st *State, p Ptr, args []Value) Value) {
		I[name] = func(ex *Exec, st *State, args []Value, call ssa.CallInstruction) (Value, bool) {
			p := args[0].(Ptr)
			if p.Obj == 0 {
				ex.goPanic(st, "nil pointer dereference")
			}
			key := "atomic" + lockKey(p)
			ex.visible(st, name)
			ex.hbAcquire(st, key)
			ex.noTrack = true
			res := f(ex, st, p, args)
			ex.noTrack = false
			ex.hbRelease(st, key)
			return res, true
		}
	}
	for _, t := range []string{"Int32", "Int64", "Uint32", "Uint64", "Uintptr"} {
		atomicOp("sync/atomic.Add"+t, func(ex *Exec, st *State, p Ptr, args []Value) Value {
			v := ex.C.BVBin(smt.OAdd, ex.load(st, p).(*smt.Term), args[1].(*smt.Term))
			ex.store(st, p, v)
			return v
		})
		atomicOp("sync/atomic.Load"+t, func(ex *Exec, st *State, p Ptr, args []Value) Value { return ex.load(st, p) })
		atomicOp("sync/atomic.Store"+t, func(ex *Exec, st *State, p Ptr, args []Value) Value {
			ex.store(st, p, args[1])
			return nil
		})
		atomicOp("sync/atomic.Swap"+t, func(ex *Exec, st *State, p Ptr, args []Value) Value {
			old := ex.load(st, p)
			ex.store(st, p, args[1])
			return old
		})
	}
}

func intersect(a, b []string) []string {
	var out []string
	for _, x := range a {
		for _, y := range b {
			if x == y {
				out = append(out, x)
				break
			}
		}
	}
	return out
}

// repoSite: the position of the innermost frame of the current goroutine that lies inside the repository, when the
// current site itself does not (used to place replay pause points in instrumentable files).
func (ex *Exec) repoSite(st *State) string {
	if ex.RepoPrefix == "" || strings.HasPrefix(ex.curSite, ex.RepoPrefix) {
		return ""
	}
	g := st.g()
	for i := len(g.Frames) - 1; i >= 0; i-- {
		fr := g.Frames[i]
		if fr.Block == nil || fr.IP >= len(fr.Block.Instrs) {
			continue
		}
		s := ex.site(fr.Block.Instrs[fr.IP].Pos())
		if strings.HasPrefix(s, ex.RepoPrefix) {
			return s
		}
	}
	return ""
}
