package sym

import (
	"fmt"

	"gosym/smt"

	"golang.org/x/tools/go/ssa"
)

func lockKey(p Ptr) string { return fmt.Sprintf("%d/%v", p.Obj, p.Path) }

func (ex *Exec) runnable(g *G) bool { return g.Status == GRunnable && len(g.Frames) > 0 }

// visible is called at the start of every visible operation of the current goroutine.
func (ex *Exec) visible(st *State, what string) { ex.visibleOp(st, what, false) }

// globalAccess is called before a load/store/lookup/update of a heap object that existed after init.
func (ex *Exec) globalAccess(st *State, id ObjID, write bool, what string) {
	if st.Eraser && !ex.InitMode {
		ex.eraser(st, id, write, what)
		return
	}
	if ex.InitMode || !st.RacyOnly || id > ex.BaseMax {
		return
	}
	if write {
		ex.visibleOp(st, "write "+what, true)
		if st.Dirty == nil {
			st.Dirty = map[ObjID]bool{}
		}
		st.Dirty[id] = true
		ex.sh.mu.Lock()
		ex.WriteAfterInit[what+" @ "+ex.where(st)] = true
		ex.sh.mu.Unlock()
		return
	}
	if st.Dirty[id] {
		ex.visibleOp(st, "read "+what, true)
	}
}

func intersect(a, b []string) []string {
	var out []string
	for _, x := range a {
		for _, y := range b {
			if x == y {
				out = append(out, x)
				break
			}
		}
	}
	return out
}

// eraser implements the lockset discipline check; objects found racy become visible operations.
func (ex *Exec) eraser(st *State, id ObjID, write bool, what string) {
	g := st.g()
	site := ex.whereSite(st)
	if st.Dirty[id] || (ex.UseRacySites && ex.RacySites[site]) {
		if !ex.UseRacySites {
			ex.sh.mu.Lock()
			ex.RacySites[site] = true
			ex.sh.mu.Unlock()
		}
		ex.curSite = site
		ex.visibleOp(st, map[bool]string{true: "write ", false: "read "}[write]+what, true)
		return
	}
	if st.Acc == nil {
		st.Acc = map[ObjID]accInfo{}
	}
	a, ok := st.Acc[id]
	if !ok {
		st.Acc[id] = accInfo{Owner: g.ID, Sites: []string{site}}
		return
	}
	if !ex.UseRacySites {
		known := false
		for _, x := range a.Sites {
			if x == site {
				known = true
				break
			}
		}
		if !known {
			a.Sites = append(append([]string(nil), a.Sites...), site)
			st.Acc[id] = a
		}
	}
	switch a.State {
	case 0:
		if a.Owner == g.ID {
			return
		}
		a.Lockset = append([]string(nil), g.Held...)
		a.State = 1
		if write {
			a.State = 2
		}
	case 1:
		a.Lockset = intersect(a.Lockset, g.Held)
		if write {
			a.State = 2
		}
	case 2:
		a.Lockset = intersect(a.Lockset, g.Held)
	}
	st.Acc[id] = a
	if a.State == 2 && len(a.Lockset) == 0 {
		if st.Dirty == nil {
			st.Dirty = map[ObjID]bool{}
		}
		st.Dirty[id] = true
		if !ex.UseRacySites {
			ex.sh.mu.Lock()
			ex.RacySites[site] = true
			for _, x := range a.Sites {
				ex.RacySites[x] = true
			}
			ex.sh.mu.Unlock()
		}
		st.SchedTrace = append(st.SchedTrace, fmt.Sprintf("DIRTY %s by g%d @ %s", what, g.ID, ex.whereSite(st)))
		ex.sh.mu.Lock()
		ex.WriteAfterInit["lockset-empty "+what+" @ "+ex.where(st)] = true
		ex.sh.mu.Unlock()
	}
}

func (ex *Exec) visibleOp(st *State, what string, racy bool) {
	g := st.g()
	if g.Retry { // re-execution of an operation that blocked: not a new arrival
		g.Retry = false
		g.NoYield = false
		return
	}
	if st.Sched && (!st.RacyOnly || racy) && !g.NoYield && st.Preempt < st.MaxPreempt {
		var others []*G
		for _, o := range st.Gs {
			if o.ID != g.ID && ex.runnable(o) && !o.Slept {
				others = append(others, o)
			}
		}
		if len(others) > 0 {
			// the scheduling decision is a symbolic variable ranging over the enabled goroutines; the
			// pre-emption budget is a constraint on the sum of decisions that differ from the running one
			C := ex.C
			st.SchedVars++
			v := ex.nondet(st, fmt.Sprintf("sched_%d", st.SchedVars), smt.BV(8))
			dom := C.Eq(v, C.BVConst(uint64(g.ID), 8))
			for _, o := range others {
				dom = C.Or(dom, C.Eq(v, C.BVConst(uint64(o.ID), 8)))
			}
			if st.PreemptTerm == nil {
				st.PreemptTerm = C.BVConst(0, 8)
			}
			cnt := C.BVBin(smt.OAdd, st.PreemptTerm, C.Ite(C.Eq(v, C.BVConst(uint64(g.ID), 8)), C.BVConst(0, 8), C.BVConst(1, 8)))
			budget := C.BVCmp(smt.OUle, cnt, C.BVConst(uint64(st.MaxPreempt), 8))
			base := append(append([]*smt.Term(nil), st.PC...), dom, budget)
			for _, o := range others {
				pick := C.Eq(v, C.BVConst(uint64(o.ID), 8))
				if r := ex.S.Check(base, pick); r == smt.Unsat {
					continue
				} else if r == smt.Sat {
					ex.S.Done()
				}
				f := st.fork()
				f.PC = append(f.PC, dom, budget, pick)
				f.PreemptTerm = cnt
				f.Model = nil
				f.Gs[g.ID].NoYield = true
				f.Cur = o.ID
				f.Preempt++
				f.SchedTrace = append(f.SchedTrace, fmt.Sprintf("preempt g%d before %s -> g%d", g.ID, what, o.ID))
				f.Events = append(f.Events, SchedEvent{G: g.ID, Site: ex.curSite, Kind: "preempt", What: what})
				ex.push(f)
				ex.Forks++
			}
			st.PC = append(st.PC, dom, budget, C.Eq(v, C.BVConst(uint64(g.ID), 8)))
			st.PreemptTerm = cnt
			if st.Model != nil {
				m := make(map[string]uint64, len(st.Model)+1)
				for k, x := range st.Model {
					m[k] = x
				}
				m[v.Name] = uint64(g.ID)
				st.Model = m
			}
		}
	}
	g.NoYield = false
	// progress: sleepers may be rescheduled
	for _, o := range st.Gs {
		if o.ID != g.ID {
			o.Slept = false
		}
	}
	st.Spin = 0
	if st.Sched {
		st.SchedTrace = append(st.SchedTrace, fmt.Sprintf("g%d %s", g.ID, what))
		st.Events = append(st.Events, SchedEvent{G: g.ID, Site: ex.curSite, Kind: "op", What: what})
	}
}

func (ex *Exec) blockOn(st *State, status GStatus, key string) (Value, bool) {
	g := st.g()
	if status == GBlockedLock {
		g.Retry = true
	}
	if st.Sched {
		st.Events = append(st.Events, SchedEvent{G: g.ID, Site: ex.curSite, Kind: "blocked"})
	}
	g.Status = status
	g.WaitKey = key
	return nil, false
}

func (ex *Exec) tryLock(st *State, key string) bool {
	if st.Locks == nil {
		st.Locks = map[string]int{}
	}
	if st.Locks[key] != 0 {
		return false
	}
	st.Locks[key] = st.g().ID + 1
	st.g().Held = append(st.g().Held, key)
	return true
}

func (ex *Exec) unlock(st *State, key string) {
	if st.Locks[key] == 0 {
		ex.goPanic(st, "sync: unlock of unlocked mutex")
	}
	st.Locks[key] = 0
	if g := st.g(); true {
		for i, k := range g.Held {
			if k == key {
				g.Held = append(append([]string(nil), g.Held[:i]...), g.Held[i+1:]...)
				break
			}
		}
	}
	for _, o := range st.Gs {
		if o.Status == GBlockedLock && o.WaitKey == key {
			o.Status = GRunnable
			o.NoYield = true
		}
	}
}

func registerSync(ex *Exec) {
	I := ex.Intr
	lock := func(name string) Intrinsic {
		return func(ex *Exec, st *State, args []Value, call ssa.CallInstruction) (Value, bool) {
			key := lockKey(args[0].(Ptr))
			ex.visible(st, name+" "+key)
			if ex.tryLock(st, key) {
				return nil, true
			}
			return ex.blockOn(st, GBlockedLock, key)
		}
	}
	unlock := func(name string) Intrinsic {
		return func(ex *Exec, st *State, args []Value, call ssa.CallInstruction) (Value, bool) {
			key := lockKey(args[0].(Ptr))
			ex.visible(st, name+" "+key)
			ex.unlock(st, key)
			return nil, true
		}
	}
	I["(*sync.Mutex).Lock"] = lock("Lock")
	I["(*sync.Mutex).Unlock"] = unlock("Unlock")
	I["(*sync.RWMutex).Lock"] = func(ex *Exec, st *State, args []Value, call ssa.CallInstruction) (Value, bool) {
		key := lockKey(args[0].(Ptr))
		ex.visible(st, "Lock "+key)
		if st.Locks["r"+key] == 0 && ex.tryLock(st, key) {
			return nil, true
		}
		return ex.blockOn(st, GBlockedLock, key)
	}
	I["(*sync.RWMutex).Unlock"] = unlock("Unlock")
	I["(*sync.RWMutex).RLock"] = func(ex *Exec, st *State, args []Value, call ssa.CallInstruction) (Value, bool) {
		key := lockKey(args[0].(Ptr))
		ex.visible(st, "RLock "+key)
		if st.Locks == nil {
			st.Locks = map[string]int{}
		}
		if st.Locks[key] == 0 {
			st.Locks["r"+key]++
			st.g().Held = append(st.g().Held, "r"+key)
			return nil, true
		}
		return ex.blockOn(st, GBlockedLock, key)
	}
	I["(*sync.RWMutex).RUnlock"] = func(ex *Exec, st *State, args []Value, call ssa.CallInstruction) (Value, bool) {
		key := lockKey(args[0].(Ptr))
		ex.visible(st, "RUnlock "+key)
		if st.Locks["r"+key] == 0 {
			ex.goPanic(st, "sync: RUnlock of unlocked RWMutex")
		}
		st.Locks["r"+key]--
		g := st.g()
		for i, k := range g.Held {
			if k == "r"+key {
				g.Held = append(append([]string(nil), g.Held[:i]...), g.Held[i+1:]...)
				break
			}
		}
		if st.Locks["r"+key] == 0 {
			for _, o := range st.Gs {
				if o.Status == GBlockedLock && o.WaitKey == key {
					o.Status = GRunnable
					o.NoYield = true
				}
			}
		}
		return nil, true
	}
	tryLockI := func(ex *Exec, st *State, args []Value, call ssa.CallInstruction) (Value, bool) {
		key := lockKey(args[0].(Ptr))
		ex.visible(st, "TryLock "+key)
		if st.Locks["r"+key] == 0 && ex.tryLock(st, key) {
			return ex.C.True, true
		}
		return ex.C.False, true
	}
	I["(*sync.Mutex).TryLock"] = tryLockI
	I["(*sync.RWMutex).TryLock"] = tryLockI

	I["sync.NewCond"] = func(ex *Exec, st *State, args []Value, call ssa.CallInstruction) (Value, bool) {
		t := ex.Prog.ImportedPackage("sync").Type("Cond").Type()
		v := ex.zero(t).(Struct)
		v[1] = args[0] // field L
		id := st.alloc(&Object{V: v})
		return Ptr{Obj: id}, true
	}
	condL := func(st *State, c Ptr) string {
		l := ex.load(st, c.field(1)).(Iface)
		return lockKey(l.V.(Ptr))
	}
	I["(*sync.Cond).Wait"] = func(ex *Exec, st *State, args []Value, call ssa.CallInstruction) (Value, bool) {
		c := args[0].(Ptr)
		g := st.g()
		ck := "cond" + lockKey(c)
		lk := condL(st, c)
		if g.CondPhase == 0 {
			ex.visible(st, "Wait "+ck)
			ex.unlock(st, lk)
			g.CondPhase = 1
			return ex.blockOn(st, GBlockedCond, ck)
		}
		// woken: re-acquire L
		if ex.tryLock(st, lk) {
			g.CondPhase = 0
			if st.Sched {
				st.SchedTrace = append(st.SchedTrace, fmt.Sprintf("g%d woke from %s", g.ID, ck))
			}
			return nil, true
		}
		return ex.blockOn(st, GBlockedLock, lk)
	}
	wakeCond := func(st *State, ck string, all bool) {
		for _, o := range st.Gs {
			if o.Status == GBlockedCond && o.WaitKey == ck {
				o.Status = GRunnable
				o.CondPhase = 2
				o.NoYield = true
				if !all {
					return
				}
			}
		}
	}
	I["(*sync.Cond).Signal"] = func(ex *Exec, st *State, args []Value, call ssa.CallInstruction) (Value, bool) {
		ck := "cond" + lockKey(args[0].(Ptr))
		ex.visible(st, "Signal "+ck)
		wakeCond(st, ck, false)
		return nil, true
	}
	I["(*sync.Cond).Broadcast"] = func(ex *Exec, st *State, args []Value, call ssa.CallInstruction) (Value, bool) {
		ck := "cond" + lockKey(args[0].(Ptr))
		ex.visible(st, "Broadcast "+ck)
		wakeCond(st, ck, true)
		return nil, true
	}
	I["(*sync.WaitGroup).Add"] = func(ex *Exec, st *State, args []Value, call ssa.CallInstruction) (Value, bool) {
		key := "wg" + lockKey(args[0].(Ptr))
		ex.visible(st, "wg.Add "+key)
		if st.Locks == nil {
			st.Locks = map[string]int{}
		}
		st.Locks[key] += int(int64(args[1].(*smt.Term).Val))
		if st.Locks[key] == 0 {
			for _, o := range st.Gs {
				if o.Status == GBlockedLock && o.WaitKey == key {
					o.Status = GRunnable
					o.NoYield = true
				}
			}
		}
		return nil, true
	}
	I["(*sync.WaitGroup).Done"] = func(ex *Exec, st *State, args []Value, call ssa.CallInstruction) (Value, bool) {
		key := "wg" + lockKey(args[0].(Ptr))
		ex.visible(st, "wg.Done "+key)
		st.Locks[key]--
		if st.Locks[key] < 0 {
			ex.goPanic(st, "sync: negative WaitGroup counter")
		}
		if st.Locks[key] == 0 {
			for _, o := range st.Gs {
				if o.Status == GBlockedLock && o.WaitKey == key {
					o.Status = GRunnable
					o.NoYield = true
				}
			}
		}
		return nil, true
	}
	I["(*sync.WaitGroup).Wait"] = func(ex *Exec, st *State, args []Value, call ssa.CallInstruction) (Value, bool) {
		key := "wg" + lockKey(args[0].(Ptr))
		ex.visible(st, "wg.Wait "+key)
		if st.Locks[key] == 0 {
			return nil, true
		}
		return ex.blockOn(st, GBlockedLock, key)
	}
	I["math/rand.Intn"] = func(ex *Exec, st *State, args []Value, call ssa.CallInstruction) (Value, bool) {
		n := args[0].(*smt.Term)
		v := ex.nondet(st, fmt.Sprintf("rand_%d", len(st.Nondet)), smt.BV(64))
		if !ex.assume(st, ex.C.BVCmp(smt.OUlt, v, n)) {
			ex.goPanic(st, "invalid argument to Intn")
		}
		return v, true
	}
	I["time.Sleep"] = func(ex *Exec, st *State, args []Value, call ssa.CallInstruction) (Value, bool) {
		ex.visible(st, "Sleep")
		st.g().Slept = true
		ex.yieldNow = true
		return nil, true
	}
	I[zz+"Schedule"] = func(ex *Exec, st *State, args []Value, call ssa.CallInstruction) (Value, bool) {
		st.Sched = true
		st.MaxPreempt = int(args[0].(*smt.Term).Val)
		st.MaxFree = 2
		return nil, true
	}
	I[zz+"ScheduleEraser"] = func(ex *Exec, st *State, args []Value, call ssa.CallInstruction) (Value, bool) {
		st.Sched = true
		st.RacyOnly = true // pre-empt only at accesses to objects whose lockset became empty
		st.Eraser = true
		st.MaxPreempt = int(args[0].(*smt.Term).Val)
		return nil, true
	}
	I[zz+"ScheduleRacy"] = func(ex *Exec, st *State, args []Value, call ssa.CallInstruction) (Value, bool) {
		st.Sched = true
		st.RacyOnly = true
		st.MaxPreempt = int(args[0].(*smt.Term).Val)
		return nil, true
	}
	I[zz+"Quiesce"] = func(ex *Exec, st *State, args []Value, call ssa.CallInstruction) (Value, bool) {
		st.g().Status = GQuiesce
		return nil, true // IP advances; goroutine resumes when everything else is blocked
	}
}

// pickNext chooses the next goroutine when the current one cannot continue; forks over alternatives.
func (ex *Exec) pickNext(st *State) bool {
	var cands []int
	for _, g := range st.Gs {
		if g.Status == GRunnable && len(g.Frames) == 0 {
			g.Status = GDone
		}
		if ex.runnable(g) && !g.Slept {
			cands = append(cands, g.ID)
		}
	}
	if len(cands) == 0 {
		// only sleepers left?
		for _, g := range st.Gs {
			if ex.runnable(g) && g.Slept {
				cands = append(cands, g.ID)
			}
		}
		if len(cands) > 0 {
			st.Spin++
			if st.Spin > 3 {
				cands = nil // polling forever without progress: treat as blocked
			}
		}
	}
	if len(cands) == 0 {
		for _, g := range st.Gs {
			if g.Status == GQuiesce {
				g.Status = GRunnable
				st.Cur = g.ID
				if st.Sched {
					st.SchedTrace = append(st.SchedTrace, "quiescent")
				}
				return true
			}
		}
		return false
	}
	if st.Sched && (st.RacyOnly || st.FreeChoices >= st.MaxFree) && len(cands) > 1 {
		// deterministic round robin: first candidate after the current goroutine
		pick := cands[0]
		for _, c := range cands {
			if c > st.Cur {
				pick = c
				break
			}
		}
		st.Cur = pick
		return true
	}
	if st.Sched {
		if len(cands) > 1 {
			st.FreeChoices++
		}
		for _, c := range cands[1:] {
			f := st.fork()
			f.Cur = c
			f.SchedTrace = append(f.SchedTrace, fmt.Sprintf("switch -> g%d", c))
			ex.push(f)
			ex.Forks++
		}
	}
	st.Cur = cands[0]
	return true
}
