package sym

import (
	"fmt"
	"math"
	"os"
	"strings"
	"go/token"
	"go/types"

	"gosym/smt"

	"golang.org/x/tools/go/ssa"
)

func (ex *Exec) unop(st *State, in *ssa.UnOp, x Value) Value {
	C := ex.C
	t := x.(*smt.Term)
	switch in.Op {
	case token.NOT:
		return C.Not(t)
	case token.SUB:
		if t.Sort.K == smt.KFP {
			return C.FPUn(smt.OFNeg, t)
		}
		return C.BVUn(smt.ONeg, t)
	case token.XOR:
		return C.BVUn(smt.OBNot, t)
	}
	ex.unsupported(st, "unop "+in.Op.String())
	return nil
}

func (ex *Exec) strEq(a, b Str) *smt.Term {
	if len(a.B) != len(b.B) {
		return ex.C.False
	}
	r := ex.C.True
	for i := range a.B {
		r = ex.C.And(r, ex.C.Eq(a.B[i], b.B[i]))
	}
	return r
}

// strLess: lexicographic a < b on bytes
func (ex *Exec) strLess(a, b Str) *smt.Term {
	C := ex.C
	n := len(a.B)
	if len(b.B) < n {
		n = len(b.B)
	}
	// build from the end
	res := C.BoolConst(len(a.B) < len(b.B))
	for i := n - 1; i >= 0; i-- {
		res = C.Ite(C.Eq(a.B[i], b.B[i]), res, C.BVCmp(smt.OUlt, a.B[i], b.B[i]))
	}
	return res
}

// valueEq implements Go == on two values of the same static type (or interface operands).
func (ex *Exec) valueEq(st *State, a, b Value) *smt.Term {
	C := ex.C
	switch x := a.(type) {
	case *smt.Term:
		y := b.(*smt.Term)
		if x.Sort.K == smt.KFP {
			return C.FPCmp(smt.OFEq, x, y)
		}
		return C.Eq(x, y)
	case Str:
		return ex.strEq(x, b.(Str))
	case Ptr:
		y := b.(Ptr)
		if x.Obj != y.Obj || len(x.Path) != len(y.Path) {
			return C.False
		}
		for i := range x.Path {
			if x.Path[i] != y.Path[i] {
				return C.False
			}
		}
		return C.True
	case Iface:
		y := b.(Iface)
		if x.T == nil || y.T == nil {
			return C.BoolConst(x.T == nil && y.T == nil)
		}
		if !types.Identical(x.T, y.T) {
			return C.False
		}
		if !types.Comparable(x.T) {
			ex.goPanic(st, "comparing uncomparable type "+x.T.String())
		}
		return ex.valueEq(st, x.V, y.V)
	case Struct:
		y := b.(Struct)
		r := C.True
		for i := range x {
			r = C.And(r, ex.valueEq(st, x[i], y[i]))
		}
		return r
	case Array:
		y := b.(Array)
		r := C.True
		for i := range x {
			r = C.And(r, ex.valueEq(st, x[i], y[i]))
		}
		return r
	case MapRef:
		return C.BoolConst(x.Obj == b.(MapRef).Obj)
	case ChanRef:
		return C.BoolConst(x.Obj == b.(ChanRef).Obj)
	case Slice:
		y := b.(Slice)
		return C.BoolConst(x.Arr == 0 && y.Arr == 0) // only nil comparison is legal
	case Closure:
		y := b.(Closure)
		return C.BoolConst(x.Fn == nil && y.Fn == nil)
	case nil:
		return C.BoolConst(b == nil)
	case Native:
		if ra, ok := x.V.(rtypeRef); ok {
			if nb, ok := b.(Native); ok {
				if rb, ok := nb.V.(rtypeRef); ok {
					return C.BoolConst(types.Identical(ra.T, rb.T))
				}
			}
			return C.False
		}
	}
	ex.unsupported(st, fmt.Sprintf("== on %T", a))
	return nil
}

func (ex *Exec) binop(st *State, op token.Token, xt types.Type, x, y Value, site ssa.Instruction) Value {
	C := ex.C
	switch op {
	case token.EQL:
		return ex.valueEq(st, x, y)
	case token.NEQ:
		return C.Not(ex.valueEq(st, x, y))
	}
	if xs, ok := x.(Str); ok {
		ys := y.(Str)
		switch op {
		case token.ADD:
			return Str{append(append([]*smt.Term(nil), xs.B...), ys.B...)}
		case token.LSS:
			return ex.strLess(xs, ys)
		case token.GTR:
			return ex.strLess(ys, xs)
		case token.LEQ:
			return C.Not(ex.strLess(ys, xs))
		case token.GEQ:
			return C.Not(ex.strLess(xs, ys))
		}
	}
	a, b := x.(*smt.Term), y.(*smt.Term)
	if a.Sort.K == smt.KBool {
		switch op {
		case token.AND, token.LAND:
			return C.And(a, b)
		case token.OR, token.LOR:
			return C.Or(a, b)
		}
	}
	if a.Sort.K == smt.KFP {
		switch op {
		case token.ADD:
			return C.FPBin(smt.OFAdd, a, b)
		case token.SUB:
			return C.FPBin(smt.OFSub, a, b)
		case token.MUL:
			return C.FPBin(smt.OFMul, a, b)
		case token.QUO:
			return C.FPBin(smt.OFDiv, a, b)
		case token.LSS:
			return C.FPCmp(smt.OFLt, a, b)
		case token.LEQ:
			return C.FPCmp(smt.OFLe, a, b)
		case token.GTR:
			return C.FPCmp(smt.OFLt, b, a)
		case token.GEQ:
			return C.FPCmp(smt.OFLe, b, a)
		}
		ex.unsupported(st, "fp binop "+op.String())
	}
	_, signed, _ := intWidth(xt)
	w := a.Sort.W
	switch op {
	case token.ADD:
		return C.BVBin(smt.OAdd, a, b)
	case token.SUB:
		return C.BVBin(smt.OSub, a, b)
	case token.MUL:
		return C.BVBin(smt.OMul, a, b)
	case token.QUO, token.REM:
		zero := C.Eq(b, C.BVConst(0, w))
		if zero.IsConst() {
			if zero.Val == 1 {
				ex.goPanic(st, "integer divide by zero")
			}
		} else {
			ex.report(st, "panic", "integer divide by zero", zero)
			if !ex.assume(st, C.Not(zero)) {
				panic(pathEnd{"div by zero always"})
			}
		}
		o := map[[2]bool]smt.Op{{true, true}: smt.OSDiv, {true, false}: smt.OUDiv, {false, true}: smt.OSRem, {false, false}: smt.OURem}[[2]bool{op == token.QUO, signed}]
		return C.BVBin(o, a, b)
	case token.AND:
		return C.BVBin(smt.OBAnd, a, b)
	case token.OR:
		return C.BVBin(smt.OBOr, a, b)
	case token.XOR:
		return C.BVBin(smt.OBXor, a, b)
	case token.AND_NOT:
		return C.BVBin(smt.OBAnd, a, C.BVUn(smt.OBNot, b))
	case token.SHL, token.SHR:
		// shift count has its own width; Go: shifts >= width give 0 (or sign fill)
		cnt := b
		if cnt.Sort.W < w {
			cnt = C.Zext(cnt, w)
		} else if cnt.Sort.W > w {
			big := C.BVCmp(smt.OUle, C.BVConst(uint64(w), cnt.Sort.W), cnt)
			cnt = C.Ite(big, C.BVConst(uint64(w), w), C.Extract(cnt, w-1, 0))
		}
		o := smt.OShl
		if op == token.SHR {
			o = smt.OLShr
			if signed {
				o = smt.OAShr
			}
		}
		return C.BVBin(o, a, cnt) // SMT semantics for count >= w match Go's
	case token.LSS:
		if signed {
			return C.BVCmp(smt.OSlt, a, b)
		}
		return C.BVCmp(smt.OUlt, a, b)
	case token.LEQ:
		if signed {
			return C.BVCmp(smt.OSle, a, b)
		}
		return C.BVCmp(smt.OUle, a, b)
	case token.GTR:
		if signed {
			return C.BVCmp(smt.OSlt, b, a)
		}
		return C.BVCmp(smt.OUlt, b, a)
	case token.GEQ:
		if signed {
			return C.BVCmp(smt.OSle, b, a)
		}
		return C.BVCmp(smt.OUle, b, a)
	}
	ex.unsupported(st, "binop "+op.String())
	return nil
}

func (ex *Exec) convert(st *State, from, to types.Type, x Value) Value {
	C := ex.C
	if fw, fsigned, ok := intWidth(from); ok {
		t := x.(*smt.Term)
		if tw, _, ok := intWidth(to); ok {
			if tw <= fw {
				return C.Extract(t, tw-1, 0)
			}
			if fsigned {
				return C.Sext(t, tw)
			}
			return C.Zext(t, tw)
		}
		if isFloat(to) {
			if fsigned {
				return C.FPFromSBV(t)
			}
			return C.FPFromUBV(t)
		}
		if isString(to) {
			// string(rune): only ASCII / concrete supported
			if t.IsConst() {
				return ex.strConst(string(rune(int32(t.Val))))
			}
			// symbolic rune: assume < 0x80 handled by caller via fork
			lt := C.BVCmp(smt.OUlt, t, C.BVConst(0x80, t.Sort.W))
			tst, fst := ex.branch(st, lt, nil)
			if fst != nil {
				// non-ascii symbolic rune to string: unsupported on that side
				fst.Trace = append(fst.Trace, "dropped: string(symbolic non-ASCII rune)")
				ex.Findings = append(ex.Findings, Finding{Kind: "unsupported", Msg: "string(symbolic non-ASCII rune)"})
			}
			if tst == nil {
				panic(pathEnd{"string(rune) non-ascii only"})
			}
			return Str{[]*smt.Term{C.Extract(t, 7, 0)}}
		}
	}
	if isFloat(from) {
		t := x.(*smt.Term)
		if isFloat(to) {
			if tb, ok := to.Underlying().(*types.Basic); ok && tb.Kind() == types.Float32 {
				if fb, ok := from.Underlying().(*types.Basic); !ok || fb.Kind() != types.Float32 {
					return C.FPRound32(t) // float32 values are carried as float64 terms holding a float32-representable value
				}
			}
			return t
		}
		if tw, tsigned, ok := intWidth(to); ok && !(tsigned && tw == 64) {
			// in range: truncation towards zero (language specification); out of range / NaN: the result is
			// implementation-specific, modelled as an arbitrary value of the target type
			tr := C.FPUn(smt.OFTrunc, t)
			var inr, val *smt.Term
			if tsigned {
				lim := float64(int64(1) << uint(tw-1))
				inr = C.And(C.FPCmp(smt.OFLe, C.FPConst(-lim), tr), C.FPCmp(smt.OFLt, tr, C.FPConst(lim)))
				val = C.FPToSBV(t, tw)
			} else {
				lim := 18446744073709551616.0
				if tw < 64 {
					lim = float64(uint64(1) << uint(tw))
				}
				inr = C.And(C.FPCmp(smt.OFLe, C.FPConst(0), tr), C.FPCmp(smt.OFLt, tr, C.FPConst(lim)))
				val = C.FPToUBV(t, tw)
			}
			if inr.IsConst() && inr.Val == 1 && t.IsConst() {
				f := math.Float64frombits(t.Val)
				if tsigned {
					return C.BVConst(uint64(int64(f)), tw)
				}
				return C.BVConst(uint64(f), tw)
			}
			any := ex.nondet(st, fmt.Sprintf("conv_out_of_range_w%d_%d", tw, len(st.Nondet)), smt.BV(tw))
			return C.Ite(inr, val, any)
		}
		if tw, tsigned, ok := intWidth(to); ok && tsigned && tw == 64 {
			// amd64 semantics: out of range / NaN -> 0x8000000000000000
			lo := C.FPConst(-9223372036854775808.0)
			hi := C.FPConst(9223372036854775808.0)
			inr := C.And(C.FPCmp(smt.OFLe, lo, t), C.FPCmp(smt.OFLt, t, hi))
			return C.Ite(inr, C.FPToSBV(t, 64), C.BVConst(1<<63, 64))
		}
		ex.unsupported(st, "float conversion to "+to.String())
	}
	if isString(from) {
		if sl, ok := to.Underlying().(*types.Slice); ok {
			s := x.(Str)
			if w, _, _ := intWidth(sl.Elem()); w == 8 {
				arr := make(Array, len(s.B))
				for i, b := range s.B {
					arr[i] = b
				}
				id := st.alloc(&Object{V: arr})
				return Slice{id, 0, len(arr), len(arr)}
			}
			ex.unsupported(st, "[]rune(string)")
		}
		if isString(to) {
			return x
		}
	}
	if sl, ok := from.Underlying().(*types.Slice); ok && isString(to) {
		s := x.(Slice)
		if w, _, _ := intWidth(sl.Elem()); w == 8 {
			out := make([]*smt.Term, s.Len)
			if s.Len > 0 {
				arr := st.Heap.get(s.Arr).V.(Array)
				for i := 0; i < s.Len; i++ {
					out[i] = arr[s.Off+i].(*smt.Term)
				}
			}
			return Str{out}
		}
		ex.unsupported(st, "string([]rune)")
	}
	if _, ok := from.Underlying().(*types.Pointer); ok {
		return x // unsafe.Pointer conversions
	}
	if b, ok := from.Underlying().(*types.Basic); ok && b.Kind() == types.UnsafePointer {
		return x
	}
	ex.unsupported(st, fmt.Sprintf("convert %v -> %v", from, to))
	return nil
}

func (ex *Exec) typeAssert(st *State, fr *Frame, in *ssa.TypeAssert) {
	x := ex.get(st, fr, in.X).(Iface)
	ok := false
	var res Value
	if x.T != nil {
		if _, isIface := in.AssertedType.Underlying().(*types.Interface); isIface {
			ok = types.AssertableTo(in.AssertedType.Underlying().(*types.Interface), x.T) && types.Implements(x.T, in.AssertedType.Underlying().(*types.Interface))
			res = x
		} else {
			ok = types.Identical(x.T, in.AssertedType)
			res = x.V
		}
	}
	if in.CommaOk {
		if !ok {
			res = ex.zero(in.AssertedType)
		}
		ex.set(fr, in, Tuple{res, ex.C.BoolConst(ok)})
		return
	}
	if !ok {
		ts := "nil"
		if x.T != nil {
			ts = x.T.String()
		}
		ex.goPanic(st, fmt.Sprintf("interface conversion: interface is %s, not %s", ts, in.AssertedType))
	}
	ex.set(fr, in, res)
}

// boundsSplit handles an index term against length n: reports a possible panic and returns the
// (state, concrete index) continuations.
func (ex *Exec) boundsSplit(st *State, idx *smt.Term, n int, what string) []struct {
	St *State
	V  int64
} {
	C := ex.C
	if idx.IsConst() {
		v := int64(idx.Val)
		if v < 0 || v >= int64(n) {
			ex.goPanic(st, fmt.Sprintf("%s out of range [%d] with length %d", what, v, n))
		}
		return []struct {
			St *State
			V  int64
		}{{st, v}}
	}
	oob := C.Not(C.BVCmp(smt.OUlt, idx, C.BVConst(uint64(n), idx.Sort.W)))
	ex.report(st, "panic", fmt.Sprintf("%s out of range (length %d)", what, n), oob)
	return ex.concretize(st, idx, 0, int64(n-1))
}

func (ex *Exec) indexAddr(st *State, fr *Frame, in *ssa.IndexAddr) bool {
	x := ex.get(st, fr, in.X)
	idx := ex.widenIndex(ex.get(st, fr, in.Index).(*smt.Term), in.Index.Type())
	var n int
	var mk func(i int) Ptr
	switch v := x.(type) {
	case Slice:
		n = v.Len
		mk = func(i int) Ptr { return Ptr{Obj: v.Arr, Path: []int{v.Off + i}} }
	case Ptr: // pointer to array
		if v.Obj == 0 {
			ex.goPanic(st, "nil pointer dereference (array)")
		}
		n = int(in.X.Type().Underlying().(*types.Pointer).Elem().Underlying().(*types.Array).Len())
		mk = func(i int) Ptr { return v.field(i) }
	default:
		panic(fmt.Sprintf("indexaddr on %T", x))
	}
	if !idx.IsConst() && n > 0 {
		// symbolic pointer when the elements are scalar terms
		p0 := mk(0)
		arrv := getPath(st.Heap.get(p0.Obj).V, p0.Path[:len(p0.Path)-1])
		if arr, ok := arrv.(Array); ok {
			if _, isTerm := arr[p0.Path[len(p0.Path)-1]].(*smt.Term); isTerm {
				oob := ex.C.Not(ex.C.BVCmp(smt.OUlt, idx, ex.C.BVConst(uint64(n), 64)))
				ex.report(st, "panic", fmt.Sprintf("index out of range (length %d)", n), oob)
				if !ex.assume(st, ex.C.Not(oob)) {
					ex.endPath(st, "index always oob")
					return false
				}
				ex.set(fr, in, Ptr{Obj: p0.Obj, Path: p0.Path[:len(p0.Path)-1], Sym: idx, SymN: n, SymOff: p0.Path[len(p0.Path)-1]})
				fr.IP++
				return true
			}
		}
	}
	conts := ex.boundsSplit(st, idx, n, "index")
	return ex.resume(st, conts, func(s *State, i int64) {
		f := s.frame()
		ex.set(f, in, mk(int(i)))
		f.IP++
	})
}

// resume applies k to each continuation; the first one reuses the running loop when it is st itself.
func (ex *Exec) resume(st *State, conts []struct {
	St *State
	V  int64
}, k func(s *State, v int64)) bool {
	if len(conts) == 0 {
		ex.endPath(st, "no feasible index")
		return false
	}
	same := false
	for _, c := range conts {
		k(c.St, c.V)
		if c.St == st {
			same = true
		} else {
			ex.push(c.St)
		}
	}
	if !same {
		return false
	}
	return true
}

func (ex *Exec) index(st *State, fr *Frame, in *ssa.Index) bool {
	x := ex.get(st, fr, in.X)
	idx := ex.widenIndex(ex.get(st, fr, in.Index).(*smt.Term), in.Index.Type())
	switch v := x.(type) {
	case Array:
		return ex.readIndexed(st, in, idx, len(v), func(i int) Value { return v[i] })
	case Str:
		return ex.readIndexed(st, in, idx, len(v.B), func(i int) Value { return v.B[i] })
	}
	panic(fmt.Sprintf("index on %T", x))
}

// readIndexed: symbolic index read as ite-chain when elements are terms, else split.
func (ex *Exec) readIndexed(st *State, in ssa.Value, idx *smt.Term, n int, at func(i int) Value) bool {
	C := ex.C
	fr := st.frame()
	if idx.IsConst() {
		v := int64(idx.Val)
		if v < 0 || v >= int64(n) {
			ex.goPanic(st, fmt.Sprintf("index out of range [%d] with length %d", v, n))
		}
		ex.set(fr, in, at(int(v)))
		fr.IP++
		return true
	}
	oob := C.Not(C.BVCmp(smt.OUlt, idx, C.BVConst(uint64(n), 64)))
	ex.report(st, "panic", fmt.Sprintf("index out of range (length %d)", n), oob)
	if !ex.assume(st, C.Not(oob)) {
		ex.endPath(st, "index always oob")
		return false
	}
	if n > 0 {
		if _, ok := at(0).(*smt.Term); ok {
			res := ex.selectTree(idx, func(i int) *smt.Term { return at(i).(*smt.Term) }, 0, n)
			ex.set(fr, in, res)
			fr.IP++
			return true
		}
	}
	conts := ex.concretize(st, idx, 0, int64(n-1))
	return ex.resume(st, conts, func(s *State, i int64) {
		f := s.frame()
		ex.set(f, in, at(int(i)))
		f.IP++
	})
}

// ---- maps ----

func (ex *Exec) mapData(st *State, m MapRef) *MapData {
	if m.Obj == 0 {
		return &MapData{}
	}
	return st.Heap.get(m.Obj).Map
}

// keyEq: equality of map keys (dynamic types must match for interface keys).
func (ex *Exec) keyEq(st *State, a, b Value) *smt.Term { return ex.valueEq(st, a, b) }

func (ex *Exec) checkHashable(st *State, k Value) {
	if i, ok := k.(Iface); ok && i.T != nil && !types.Comparable(i.T) {
		ex.goPanic(st, "hash of unhashable type "+i.T.String())
	}
}

func (ex *Exec) lookup(st *State, fr *Frame, in *ssa.Lookup) bool {
	x := ex.get(st, fr, in.X)
	if s, ok := x.(Str); ok {
		idx := ex.widenIndex(ex.get(st, fr, in.Index).(*smt.Term), in.Index.Type())
		return ex.readIndexed(st, in, idx, len(s.B), func(i int) Value { return s.B[i] })
	}
	C := ex.C
	m := x.(MapRef)
	ex.globalAccess(st, m.Obj, -1, false)
	key := ex.get(st, fr, in.Index)
	ex.checkHashable(st, key)
	md := ex.mapData(st, m)
	vt := in.X.Type().Underlying().(*types.Map).Elem()
	// collect candidate entries with their match conditions
	type cand struct {
		cond *smt.Term
		val  Value
	}
	var cands []cand
	for i := len(md.Keys) - 1; i >= 0; i-- { // later entries shadow none: keys are unique by construction
		c := ex.keyEq(st, md.Keys[i], key)
		if c.IsConst() && c.Val == 0 {
			continue
		}
		cands = append(cands, cand{c, md.Vals[i]})
		if c.IsConst() && c.Val == 1 {
			break
		}
	}
	deliver := func(s *State, v Value, ok *smt.Term) {
		f := s.frame()
		if in.CommaOk {
			ex.set(f, in, Tuple{v, ok})
		} else {
			ex.set(f, in, v)
		}
		f.IP++
	}
	zero := ex.zero(vt)
	if len(cands) == 0 {
		deliver(st, zero, C.False)
		return true
	}
	if len(cands) == 1 && cands[0].cond.IsConst() {
		deliver(st, cands[0].val, C.True)
		return true
	}
	// symbolic: if all values are terms, build ite; else split
	allTerms := true
	if _, ok := zero.(*smt.Term); !ok {
		allTerms = false
	}
	for _, c := range cands {
		if _, ok := c.val.(*smt.Term); !ok {
			allTerms = false
		}
	}
	if allTerms {
		res := zero.(*smt.Term)
		found := C.False
		for i := len(cands) - 1; i >= 0; i-- {
			res = C.Ite(cands[i].cond, cands[i].val.(*smt.Term), res)
			found = C.Or(found, cands[i].cond)
		}
		deliver(st, res, found)
		return true
	}
	// split per candidate + absent
	none := C.True
	cont := false
	for _, c := range cands {
		r, m := ex.checkWithModel(st, c.cond)
		none = C.And(none, C.Not(c.cond))
		if r == smt.Unsat {
			continue
		}
		o := st.fork()
		o.Model = m
		o.PC = append(o.PC, c.cond)
		deliver(o, c.val, C.True)
		ex.push(o)
		ex.Forks++
	}
	if ex.assume(st, none) {
		deliver(st, zero, C.False)
		cont = true
	} else {
		ex.endPath(st, "lookup: key always present")
	}
	return cont
}

// mapUpdate stores key->val.  When the key may alias an existing symbolic key the path is split on the
// equality: the "different" side is pushed unchanged and re-executes the instruction under the
// strengthened path condition (no side effect has happened yet).
func (ex *Exec) mapUpdate(st *State, m MapRef, key, val Value) {
	if m.Obj == 0 {
		ex.goPanic(st, "assignment to entry in nil map")
	}
	ex.globalAccess(st, m.Obj, -1, true)
	ex.checkHashable(st, key)
	md := st.Heap.get(m.Obj).Map
	for i := range md.Keys {
		c := ex.keyEq(st, md.Keys[i], key)
		if c.IsConst() && c.Val == 0 {
			continue
		}
		if !c.IsConst() {
			tst, fst := ex.branch(st, c, nil)
			if tst == nil && fst == nil {
				panic(pathEnd{"infeasible"})
			}
			if tst == nil {
				continue
			}
			if fst != nil {
				ex.push(fst)
			}
		}
		nv := append([]Value(nil), md.Vals...)
		nv[i] = val
		st.Heap.put(m.Obj, &Object{Map: &MapData{md.Keys, nv}})
		return
	}
	nk := append(append([]Value(nil), md.Keys...), key)
	nv := append(append([]Value(nil), md.Vals...), val)
	st.Heap.put(m.Obj, &Object{Map: &MapData{nk, nv}})
}

func (ex *Exec) mapDelete(st *State, m MapRef, key Value) {
	if m.Obj == 0 {
		return
	}
	ex.globalAccess(st, m.Obj, -1, true)
	md := st.Heap.get(m.Obj).Map
	var nk, nv []Value
	for i := range md.Keys {
		c := ex.keyEq(st, md.Keys[i], key)
		if c.IsConst() && c.Val == 1 {
			continue
		}
		if !c.IsConst() {
			// decide on this path: keys are pairwise distinct, so at most one matches; split lazily
			tst, fst := ex.branch(st, c, nil)
			if tst != nil && fst != nil {
				// fst is a fork in which the key differs from entry i: it re-executes the delete
				ex.push(fst)
				continue // st: entry i deleted
			}
			if tst != nil {
				continue
			}
		}
		nk = append(nk, md.Keys[i])
		nv = append(nv, md.Vals[i])
	}
	st.Heap.put(m.Obj, &Object{Map: &MapData{nk, nv}})
}

// ---- slices ----

func (ex *Exec) sliceOp(st *State, fr *Frame, in *ssa.Slice) bool {
	x := ex.get(st, fr, in.X)
	geti := func(v ssa.Value, def int64) *smt.Term {
		if v == nil {
			return ex.C.BVConst(uint64(def), 64)
		}
		return ex.widenIndex(ex.get(st, fr, v).(*smt.Term), v.Type())
	}
	var length, capacity int
	switch v := x.(type) {
	case Str:
		length, capacity = len(v.B), len(v.B)
	case Slice:
		length, capacity = v.Len, v.Cap
	case Ptr:
		n := int(in.X.Type().Underlying().(*types.Pointer).Elem().Underlying().(*types.Array).Len())
		length, capacity = n, n
	}
	lo := geti(in.Low, 0)
	hi := geti(in.High, int64(length))
	if in.Max != nil {
		ex.unsupported(st, "3-index slice")
	}
	C := ex.C
	// bounds: 0 <= lo <= hi <= cap
	bad := C.Or(C.Not(C.BVCmp(smt.OUle, hi, C.BVConst(uint64(capacity), 64))), C.Not(C.BVCmp(smt.OUle, lo, hi)))
	if bad.IsConst() {
		if bad.Val == 1 {
			ex.goPanic(st, fmt.Sprintf("slice bounds out of range [%v:%v] with capacity %d", int64(lo.Val), int64(hi.Val), capacity))
		}
	} else {
		ex.report(st, "panic", fmt.Sprintf("slice bounds out of range (capacity %d)", capacity), bad)
		if !ex.assume(st, C.Not(bad)) {
			ex.endPath(st, "slice always oob")
			return false
		}
	}
	apply := func(s *State, l, h int) {
		f := s.frame()
		var res Value
		switch v := x.(type) {
		case Str:
			res = Str{v.B[l:h]}
		case Slice:
			res = Slice{v.Arr, v.Off + l, h - l, v.Cap - l}
			if v.Arr == 0 {
				res = Slice{}
			}
		case Ptr:
			if len(v.Path) != 0 {
				ex.unsupported(s, "slice of nested array")
			}
			res = Slice{v.Obj, l, h - l, capacity - l}
		}
		ex.set(f, in, res)
		f.IP++
	}
	if lo.IsConst() && hi.IsConst() {
		apply(st, int(lo.Val), int(hi.Val))
		return true
	}
	// split on lo then hi
	cont := false
	for _, cl := range ex.concretize(st, lo, 0, int64(capacity)) {
		for _, ch := range ex.concretize(cl.St, hi, cl.V, int64(capacity)) {
			apply(ch.St, int(cl.V), int(ch.V))
			if ch.St == st {
				cont = true
			} else {
				ex.push(ch.St)
			}
		}
	}
	return cont
}

// ---- range / next ----

type rangeIter struct {
	Keys []Value
	Vals []Value
	Str  *Str
	Pos  int
	Cell ObjID // iterators are mutable: keep position in a heap cell so forks do not share it
}

func (ex *Exec) makeRange(st *State, in *ssa.Range, x Value) Value {
	switch v := x.(type) {
	case MapRef:
		md := ex.mapData(st, v)
		id := st.alloc(&Object{V: ex.C.BVConst(0, 64)})
		return &rangeIter{Keys: md.Keys, Vals: md.Vals, Cell: id}
	case Str:
		id := st.alloc(&Object{V: ex.C.BVConst(0, 64)})
		return &rangeIter{Str: &v, Cell: id}
	}
	ex.unsupported(st, fmt.Sprintf("range over %T", x))
	return nil
}

func (ex *Exec) next(st *State, fr *Frame, in *ssa.Next) {
	it := ex.get(st, fr, in.Iter).(*rangeIter)
	pos := int(st.Heap.get(it.Cell).V.(*smt.Term).Val)
	C := ex.C
	if it.Str != nil {
		if pos >= len(it.Str.B) {
			ex.set(fr, in, Tuple{C.False, C.BVConst(0, 64), C.BVConst(0, 32)})
			return
		}
		b := it.Str.B[pos]
		if !b.IsConst() || b.Val >= 0x80 {
			// only ASCII strings are ranged over natively in this prototype
			if !ex.assume(st, C.BVCmp(smt.OUlt, b, C.BVConst(0x80, 8))) {
				ex.unsupported(st, "range over non-ASCII string")
			}
		}
		st.Heap.put(it.Cell, &Object{V: C.BVConst(uint64(pos+1), 64)})
		ex.set(fr, in, Tuple{C.True, C.BVConst(uint64(pos), 64), C.Zext(b, 32)})
		return
	}
	if pos >= len(it.Keys) {
		ex.set(fr, in, Tuple{C.False, nil, nil})
		return
	}
	st.Heap.put(it.Cell, &Object{V: C.BVConst(uint64(pos+1), 64)})
	ex.set(fr, in, Tuple{C.True, it.Keys[pos], it.Vals[pos]})
}

// ---- builtins ----

func (ex *Exec) builtin(st *State, name string, args []Value, call ssa.CallInstruction) Value {
	C := ex.C
	switch name {
	case "len":
		switch v := args[0].(type) {
		case Str:
			return C.BVConst(uint64(len(v.B)), 64)
		case Slice:
			return C.BVConst(uint64(v.Len), 64)
		case MapRef:
			return C.BVConst(uint64(len(ex.mapData(st, v).Keys)), 64)
		case ChanRef:
			if v.Obj == 0 {
				return C.BVConst(0, 64)
			}
			return C.BVConst(uint64(len(st.Heap.get(v.Obj).Chan.Buf)), 64)
		case Array:
			return C.BVConst(uint64(len(v)), 64)
		case Ptr:
			return C.BVConst(uint64(len(ex.load(st, v).(Array))), 64)
		}
	case "cap":
		switch v := args[0].(type) {
		case Slice:
			return C.BVConst(uint64(v.Cap), 64)
		case ChanRef:
			return C.BVConst(uint64(st.Heap.get(v.Obj).Chan.Cap), 64)
		}
	case "append":
		s := args[0].(Slice)
		var add []Value
		switch a := args[1].(type) {
		case Slice:
			if a.Len > 0 {
				arr := st.Heap.get(a.Arr).V.(Array)
				add = append(add, arr[a.Off:a.Off+a.Len]...)
			}
		case Str:
			for _, b := range a.B {
				add = append(add, b)
			}
		}
		if len(add) == 0 {
			return s
		}
		if s.Arr != 0 && s.Len+len(add) <= s.Cap {
			// append into spare capacity writes the elements of the existing backing array: visible to the race passes
			for i := range add {
				ex.globalAccess(st, s.Arr, s.Off+s.Len+i, true)
			}
			o := st.Heap.get(s.Arr)
			arr := append(Array(nil), o.V.(Array)...)
			copy(arr[s.Off+s.Len:], add)
			st.Heap.put(s.Arr, &Object{V: arr})
			return Slice{s.Arr, s.Off, s.Len + len(add), s.Cap}
		}
		ncap := s.Len + len(add)
		if ncap < 2*s.Cap {
			ncap = 2 * s.Cap
		}
		arr := make(Array, ncap)
		if s.Len > 0 {
			copy(arr, st.Heap.get(s.Arr).V.(Array)[s.Off:s.Off+s.Len])
		}
		copy(arr[s.Len:], add)
		var z Value
		if call != nil {
			z = ex.zero(call.Common().Args[0].Type().Underlying().(*types.Slice).Elem())
		}
		for i := s.Len + len(add); i < ncap; i++ {
			arr[i] = z
		}
		id := st.alloc(&Object{V: arr})
		return Slice{id, 0, s.Len + len(add), ncap}
	case "copy":
		d := args[0].(Slice)
		var src []Value
		switch a := args[1].(type) {
		case Slice:
			if a.Len > 0 {
				src = append(src, st.Heap.get(a.Arr).V.(Array)[a.Off:a.Off+a.Len]...)
			}
		case Str:
			for _, b := range a.B {
				src = append(src, b)
			}
		}
		n := len(src)
		if d.Len < n {
			n = d.Len
		}
		if n > 0 {
			arr := append(Array(nil), st.Heap.get(d.Arr).V.(Array)...)
			copy(arr[d.Off:d.Off+n], src[:n])
			st.Heap.put(d.Arr, &Object{V: arr})
		}
		return C.BVConst(uint64(n), 64)
	case "delete":
		ex.mapDelete(st, args[0].(MapRef), args[1])
		return nil
	case "close":
		c := args[0].(ChanRef)
		cd := ex.chanObj(st, c)
		if cd.Closed {
			ex.goPanic(st, "close of closed channel")
		}
		cd.Closed = true
		ex.hbRelease(st, fmt.Sprintf("ch%d", c.Obj))
		for ex.wake(st, c.Obj, GBlockedRecv) {
		}
		return nil
	case "ssa:wrapnilchk":
		if p, ok := args[0].(Ptr); ok && p.Obj == 0 {
			ex.goPanic(st, "value method called using nil pointer")
		}
		return args[0]
	case "recover":
		// effective only when called directly by a deferred function run because of a panic
		if g := st.g(); g.Paniced && !g.Goexit && len(g.Frames) == g.UnwindLevel+1 && g.Frames[len(g.Frames)-1].IsDefer {
			g.Paniced = false
			g.Recovered = true
			v := g.Panic
			if iv, ok := v.(Iface); ok {
				return iv
			}
			return Iface{}
		}
		return Iface{}
	case "print", "println":
		if os.Getenv("GOSYM_DEBUG") != "" { // harness debugging aid: concrete operands are shown
			var parts []string
			for _, a := range args {
				switch v := a.(type) {
				case Str:
					if s, ok := concreteBytes(v); ok {
						parts = append(parts, s)
					} else {
						parts = append(parts, "<symbolic string>")
					}
				case *smt.Term:
					if v.IsConst() {
						parts = append(parts, fmt.Sprint(int64(v.Val)))
					} else {
						parts = append(parts, "<symbolic>")
					}
				default:
					parts = append(parts, fmt.Sprintf("<%T>", a))
				}
			}
			fmt.Fprintln(os.Stderr, "harness println:", strings.Join(parts, " "))
		}
		return nil
	case "min", "max":
		res := args[0].(*smt.Term)
		for _, a := range args[1:] {
			b := a.(*smt.Term)
			var lt *smt.Term
			if res.Sort.K == smt.KFP {
				lt = C.FPCmp(smt.OFLt, b, res)
			} else {
				_, signed, _ := intWidth(call.Common().Args[0].Type())
				if signed {
					lt = C.BVCmp(smt.OSlt, b, res)
				} else {
					lt = C.BVCmp(smt.OUlt, b, res)
				}
			}
			if name == "max" {
				lt = C.Not(C.Or(lt, C.Eq(b, res)))
			}
			res = C.Ite(lt, b, res)
		}
		return res
	}
	ex.unsupported(st, "builtin "+name)
	return nil
}

// widenIndex extends an index or slice bound of a narrow integer type to 64 bits according to its signedness.
func (ex *Exec) widenIndex(t *smt.Term, typ types.Type) *smt.Term {
	if t.Sort.W >= 64 {
		return t
	}
	if b, ok := typ.Underlying().(*types.Basic); ok && b.Info()&types.IsUnsigned != 0 {
		return ex.C.Zext(t, 64)
	}
	return ex.C.Sext(t, 64)
}

func concreteBytes(v Str) (string, bool) {
	b := make([]byte, len(v.B))
	for i, t := range v.B {
		if !t.IsConst() {
			return "", false
		}
		b[i] = byte(t.Val)
	}
	return string(b), true
}
