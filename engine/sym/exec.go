package sym

import (
	"sync"
	"sync/atomic"
	"time"
	"runtime/debug"
	"fmt"
	"go/constant"
	"go/token"
	"go/types"
	"os"
	"sort"
	"strings"

	"gosym/smt"

	"golang.org/x/tools/go/ssa"
)

type FuncInfo struct {
	Index map[ssa.Value]int
	N     int
	Calls int64
}

// SolverTimeoutMs is the per-query wall-clock timeout of every solver process.
var SolverTimeoutMs = 10000

type knownRec struct {
	Label string
	Cond  *smt.Term
}

type Finding struct {
	Events []SchedEvent
	Kind  string // assert, panic, unwind, deadlock, unsupported
	Msg   string
	Where string
	Model map[string]uint64
	Trace []string
}

type shared struct {
	mu        sync.Mutex
	cond      *sync.Cond
	queue     []*State
	active    int
	stopped   bool
	paths     int64
	truncated bool
	recovers  map[*ssa.Function]bool
}

// pendingCall lets an intrinsic ask for an interpreted function to be run after it returns
// (result discarded); the intrinsic's own result is delivered first.
type pendingCall struct {
	Fn   *ssa.Function
	Args []Value
}

type Intrinsic func(ex *Exec, st *State, args []Value, call ssa.CallInstruction) (Value, bool)

type Exec struct {
	Prog       *ssa.Program
	C          *smt.Ctx
	S          *smt.Solver
	infos      map[*ssa.Function]*FuncInfo
	globals    map[*ssa.Global]ObjID
	base       map[ObjID]*Object
	Intr       map[string]Intrinsic
	Interp     func(pkgPath string) bool // packages whose init/globals are interpreted
	work       []*State
	Findings   []Finding
	Paths      int
	Instrs     int64
	Forks      int
	Unwind     int
	MaxSteps   int
	symCount   map[ssa.Instruction]int
	Verbose    bool
	nondetVars map[string]*smt.Term
	killed     bool
	Reached    map[string]int
	typeCache  map[string]types.Type
	Obligations int
	Trivial     int
	OverApprox  map[string]int
	initSteps   int64
	InitMode    bool
	yieldNow    bool
	NoModelCache bool
	pendingCall  *pendingCall
	RacySites    map[string]bool
	UseRacySites bool
	curSite      string
	BaseMax      ObjID
	WriteAfterInit map[string]bool
	parallel     bool
	sh           *shared
	ID           int
	ModelHits    int
	InitSkipped []string
	GlobalNames  map[ObjID]string
	raceSeen     map[string]int
	RepoPrefix   string
	noTrack      bool
	TwoPass      bool
	Pass1Preempt int
	Params       map[string]int64
	MaxPaths     int
	SampleMax    int
	Deadline     time.Time
	KnownActive  map[string]bool
	KnownHits    map[string]int
	KnownModels  map[string]map[string]uint64
	IntrHit      map[string]int64
	PathEnds     map[string]int
	Samples      []map[string]uint64
	NontrivPaths int
	jsonDepth    int
	fmtDepth     int
	Digests      map[string]string // zz.Digest(label, text): concrete texts computed by a self-test harness
}

// FuncCalls lists every function whose SSA body was executed, with the number of activations.
func (ex *Exec) FuncCalls() map[string]int64 {
	ex.sh.mu.Lock()
	defer ex.sh.mu.Unlock()
	out := map[string]int64{}
	for fn, fi := range ex.infos {
		if n := atomic.LoadInt64(&fi.Calls); n > 0 {
			out[fn.String()] = n
		}
	}
	return out
}

func (ex *Exec) WasTruncated() bool { return ex.sh.truncated }

// ResetShared prepares a second exploration with the same program/base heap.
func (ex *Exec) ResetShared() {
	ex.sh.queue = nil
	ex.sh.active = 0
	ex.sh.paths = 0
	ex.sh.truncated = false
	for _, fi := range ex.infos {
		fi.Calls = 0
	}
}

func NewExec(prog *ssa.Program) (*Exec, error) {
	s, err := smt.NewSolver(SolverTimeoutMs)
	if err != nil {
		return nil, err
	}
	ex := &Exec{Prog: prog, C: smt.NewCtx(), S: s, infos: map[*ssa.Function]*FuncInfo{},
		globals: map[*ssa.Global]ObjID{}, base: map[ObjID]*Object{}, Intr: map[string]Intrinsic{},
		Unwind: 12, MaxSteps: 20_000_000, nondetVars: map[string]*smt.Term{}, Reached: map[string]int{}}
	ex.sh = &shared{}
	ex.sh.cond = sync.NewCond(&ex.sh.mu)
	registerIntrinsics(ex)
	return ex, nil
}

func (ex *Exec) info(fn *ssa.Function) *FuncInfo {
	ex.sh.mu.Lock()
	defer ex.sh.mu.Unlock()
	if fi, ok := ex.infos[fn]; ok {
		return fi
	}
	fi := &FuncInfo{Index: map[ssa.Value]int{}}
	for _, p := range fn.Params {
		fi.Index[p] = fi.N
		fi.N++
	}
	for _, b := range fn.Blocks {
		for _, in := range b.Instrs {
			if v, ok := in.(ssa.Value); ok {
				fi.Index[v] = fi.N
				fi.N++
			}
		}
	}
	ex.infos[fn] = fi
	return fi
}

type pathEnd struct{ reason string }

func (ex *Exec) unsupported(st *State, what string) {
	panic(pathEnd{"unsupported: " + what + " at " + ex.where(st)})
}

func (ex *Exec) site(pos token.Pos) string {
	p := ex.Prog.Fset.Position(pos)
	return fmt.Sprintf("%s:%d:%d", p.Filename, p.Line, p.Column)
}

func (ex *Exec) whereSite(st *State) string {
	fr := st.frame()
	if fr.Block != nil && fr.IP < len(fr.Block.Instrs) {
		return ex.site(fr.Block.Instrs[fr.IP].Pos())
	}
	return "?"
}

func (ex *Exec) where(st *State) string {
	if len(st.Gs) == 0 || len(st.g().Frames) == 0 {
		return "?"
	}
	fr := st.frame()
	pos := token.NoPos
	if fr.Block != nil && fr.IP < len(fr.Block.Instrs) {
		pos = fr.Block.Instrs[fr.IP].Pos()
	}
	return fmt.Sprintf("%s (%s)", fr.Fn.String(), ex.Prog.Fset.Position(pos))
}

// ---- value access ----

func (ex *Exec) constVal(c *ssa.Const) Value {
	t := c.Type()
	if c.Value == nil {
		return ex.zero(t)
	}
	if w, signed, ok := intWidth(t); ok {
		if signed {
			v, _ := constant.Int64Val(constant.ToInt(c.Value))
			return ex.C.BVConst(uint64(v), w)
		}
		v, _ := constant.Uint64Val(constant.ToInt(c.Value))
		return ex.C.BVConst(v, w)
	}
	if isFloat(t) {
		f, _ := constant.Float64Val(c.Value)
		return ex.C.FPConst(f)
	}
	if isString(t) {
		return ex.strConst(constant.StringVal(c.Value))
	}
	if isBool(t) {
		return ex.C.BoolConst(constant.BoolVal(c.Value))
	}
	panic(fmt.Sprintf("const %v of %v", c, t))
}

func (ex *Exec) globalPtr(st *State, g *ssa.Global) Ptr {
	id, ok := ex.globals[g]
	if !ok {
		if ex.InitMode {
			id = st.alloc(&Object{V: ex.zero(g.Type().(*types.Pointer).Elem())})
			ex.globals[g] = id
			ex.InitSkipped = append(ex.InitSkipped, "global "+g.String())
			return Ptr{Obj: id}
		}
		ex.unsupported(st, "global of non-interpreted package "+g.String())
	}
	return Ptr{Obj: id}
}

func (ex *Exec) get(st *State, fr *Frame, v ssa.Value) Value {
	switch v := v.(type) {
	case *ssa.Const:
		return ex.constVal(v)
	case *ssa.Global:
		return ex.globalPtr(st, v)
	case *ssa.Function:
		return Closure{Fn: v}
	case *ssa.Builtin:
		return BuiltinFn{v}
	case *ssa.FreeVar:
		for i, fv := range fr.Fn.FreeVars {
			if fv == v {
				return fr.Env[i]
			}
		}
		panic("freevar")
	}
	idx, ok := fr.Info.Index[v]
	if !ok {
		panic(fmt.Sprintf("no reg for %v in %v", v.Name(), fr.Fn))
	}
	return fr.Regs[idx]
}

func (ex *Exec) set(fr *Frame, v ssa.Value, val Value) {
	fr.Regs[fr.Info.Index[v]] = val
}

func (ex *Exec) load(st *State, p Ptr) Value {
	if p.Obj == 0 {
		ex.goPanic(st, "nil pointer dereference")
	}
	ex.globalAccess(st, p.Obj, sub0(p), false)
	if p.Sym != nil {
		arr := getPath(st.Heap.get(p.Obj).V, p.Path).(Array)
		return ex.selectTree(p.Sym, func(i int) *smt.Term { return arr[p.SymOff+i].(*smt.Term) }, 0, p.SymN)
	}
	return getPath(st.Heap.get(p.Obj).V, p.Path)
}

func (ex *Exec) store(st *State, p Ptr, v Value) {
	if p.Obj == 0 {
		ex.goPanic(st, "nil pointer dereference")
	}
	ex.globalAccess(st, p.Obj, sub0(p), true)
	o := st.Heap.get(p.Obj)
	if p.Sym != nil {
		arr := append(Array(nil), getPath(o.V, p.Path).(Array)...)
		for i := 0; i < p.SymN; i++ {
			arr[p.SymOff+i] = ex.C.Ite(ex.C.Eq(p.Sym, ex.C.BVConst(uint64(i), 64)), v.(*smt.Term), arr[p.SymOff+i].(*smt.Term))
		}
		st.Heap.put(p.Obj, &Object{V: setPath(o.V, p.Path, arr), Map: o.Map, Chan: o.Chan})
		return
	}
	st.Heap.put(p.Obj, &Object{V: setPath(o.V, p.Path, v), Map: o.Map, Chan: o.Chan})
}

// selectTree builds a balanced decision tree for reading element idx of [lo,hi).
func (ex *Exec) selectTree(idx *smt.Term, at func(i int) *smt.Term, lo, hi int) *smt.Term {
	if hi-lo == 1 {
		return at(lo)
	}
	mid := (lo + hi) / 2
	l := ex.selectTree(idx, at, lo, mid)
	r := ex.selectTree(idx, at, mid, hi)
	if l == r {
		return l
	}
	return ex.C.Ite(ex.C.BVCmp(smt.OUlt, idx, ex.C.BVConst(uint64(mid), idx.Sort.W)), l, r)
}

// ---- findings / panics ----

type goPanicSignal struct {
	msg string
	val Value // value handed to panic(); nil for runtime panics
}

func (ex *Exec) goPanic(st *State, msg string) { panic(goPanicSignal{msg: msg}) }

// callsRecover: fn contains a direct call of the recover builtin (cached).
func (ex *Exec) callsRecover(fn *ssa.Function) bool {
	ex.sh.mu.Lock()
	defer ex.sh.mu.Unlock()
	if ex.sh.recovers == nil {
		ex.sh.recovers = map[*ssa.Function]bool{}
	}
	if v, ok := ex.sh.recovers[fn]; ok {
		return v
	}
	res := false
	for _, b := range fn.Blocks {
		for _, in := range b.Instrs {
			if c, ok := in.(*ssa.Call); ok {
				if bi, ok := c.Call.Value.(*ssa.Builtin); ok && bi.Name() == "recover" {
					res = true
				}
			}
		}
	}
	ex.sh.recovers[fn] = res
	return res
}

// recoverable: some frame of the running goroutine has a pending deferred function that calls recover.
// Only then is a panic unwound through the deferred calls (Go semantics); otherwise it is reported where it is raised.
func (ex *Exec) recoverable(st *State) bool {
	if len(st.Gs) == 0 {
		return false
	}
	g := st.g()
	if g.Paniced {
		return false // a panic while unwinding another one: reported
	}
	for _, fr := range g.Frames {
		for _, d := range fr.Defers {
			if c, ok := d.Fn.(Closure); ok && c.Fn != nil && ex.callsRecover(c.Fn) {
				return true
			}
		}
	}
	return false
}

// beginUnwind puts the running goroutine into panicking mode; the run loop then runs deferred calls frame by frame.
func (ex *Exec) beginUnwind(st *State, msg string, val Value) {
	g := st.g()
	g.Paniced = true
	g.Recovered = false
	g.PanicMsg = msg
	g.PanicWhere = ex.where(st)
	if val == nil {
		val = Iface{T: types.Typ[types.String], V: ex.strConst("runtime error: " + msg)}
	}
	g.Panic = val
	g.UnwindLevel = len(g.Frames)
	g.Status = GRunnable
}

// unwindStep performs one step of panicking / post-recover processing of the frame at UnwindLevel.
// false => the path ended (uncaught panic).
func (ex *Exec) unwindStep(st *State) bool {
	g := st.g()
	fr := g.Frames[len(g.Frames)-1]
	if n := len(fr.Defers); n > 0 {
		d := fr.Defers[n-1]
		switch f := d.Fn.(type) {
		case Closure:
			if intr, ok := ex.Intr[f.Fn.String()]; ok {
				ex.curSite = d.Site
				if _, done := intr(ex, st, d.Args, nil); done {
					fr.Defers = fr.Defers[:n-1]
				}
				return true
			}
			fr.Defers = fr.Defers[:n-1]
			ex.pushFrame(st, f.Fn, d.Args, f.Env, nil)
			st.frame().IsDefer = true
		case BuiltinFn:
			fr.Defers = fr.Defers[:n-1]
			ex.builtin(st, f.B.Name(), d.Args, nil)
		}
		return true
	}
	if g.Recovered {
		// all deferred calls ran: the function returns to its caller through its recover block
		g.Recovered = false
		g.UnwindLevel = 0
		if rb := fr.Fn.Recover; rb != nil {
			fr.Prev = fr.Block
			fr.Block = rb
			fr.IP = 0
			return true
		}
		var res Value
		rs := fr.Fn.Signature.Results()
		switch rs.Len() {
		case 0:
		case 1:
			res = ex.zero(rs.At(0).Type())
		default:
			res = ex.zero(rs)
		}
		ex.doReturn(st, res)
		return true
	}
	// no deferred call left and still panicking: pop the frame
	g.Frames = g.Frames[:len(g.Frames)-1]
	g.UnwindLevel = len(g.Frames)
	if len(g.Frames) == 0 && g.Goexit {
		g.Paniced, g.Goexit = false, false
		return true // the goroutine has ended; the scheduler picks another one
	}
	if len(g.Frames) == 0 {
		g.Paniced = false
		ex.reportAt(st, "panic", g.PanicMsg, nil, g.PanicWhere)
		ex.endPath(st, "panic: "+g.PanicMsg)
		return false
	}
	return true
}

func (ex *Exec) report(st *State, kind, msg string, extra *smt.Term) {
	if kind == "panic" && extra != nil && ex.recoverable(st) {
		// a deferred function up the stack may recover: the panicking side becomes a path of its own
		ex.Obligations++
		st.Nontriv = true
		if r, m := ex.checkWithModel(st, extra); r != smt.Unsat {
			o := st.fork()
			o.PC = append(o.PC, extra)
			o.Model = m
			ex.beginUnwind(o, msg, nil)
			ex.push(o)
			ex.Forks++
		}
		return
	}
	ex.reportAt(st, kind, msg, extra, "")
}

func (ex *Exec) reportAt(st *State, kind, msg string, extra *smt.Term, at string) {
	// extra: condition under which the finding occurs (nil => unconditional on this path)
	C := ex.C
	cond := extra
	if cond == nil {
		cond = C.True
	}
	if kind == "panic" && extra != nil {
		// an implicit panic site whose condition depends on symbolic data is a real obligation
		ex.Obligations++
		st.Nontriv = true
	}
	where := at
	if where == "" {
		where = ex.where(st)
	}
	// listed known findings that apply to this obligation
	full := kind + ": " + msg + " @ " + where
	type kn struct {
		name string
		c    *smt.Term
	}
	var kns []kn
	notKnown := C.True
	for name, k := range st.Known {
		match := false
		for _, alt := range strings.Split(k.Label, "|") {
			if alt != "" && strings.Contains(full, alt) {
				match = true
			}
		}
		if match {
			kns = append(kns, kn{name, k.Cond})
			notKnown = C.And(notKnown, C.Not(k.Cond))
		}
	}
	for _, k := range kns {
		if ex.KnownHits[k.name] > 0 {
			continue // already witnessed by this worker; one witness per listed finding suffices
		}
		q := C.And(cond, k.c)
		if q.IsConst() && q.Val == 0 {
			continue
		}
		if v, ok := ex.evalModel(st, q); ok && v {
			ex.KnownHits[k.name]++
			ex.KnownModels[k.name] = st.Model
			continue
		}
		if r, m := ex.checkWithModel(st, q); r == smt.Sat {
			ex.KnownHits[k.name]++
			ex.KnownModels[k.name] = m
		}
	}
	q := C.And(cond, notKnown)
	if q.IsConst() && q.Val == 0 {
		return
	}
	mk := func(model map[string]uint64, k string) {
		ex.Findings = append(ex.Findings, Finding{Kind: k, Msg: msg, Where: where, Model: model, Events: st.Events,
			Trace: append(append([]string(nil), st.Trace...), st.SchedTrace...)})
	}
	if v, ok := ex.evalModel(st, q); ok && v {
		ex.ModelHits++
		mk(st.Model, kind)
		return
	}
	var qq *smt.Term
	if !(q.IsConst() && q.Val == 1) {
		qq = q
	}
	r := ex.S.Check(st.PC, qq)
	switch r {
	case smt.Unsat:
		return
	case smt.Sat:
		m := ex.S.Values(st.Nondet)
		ex.S.Done()
		mk(m, kind)
	default:
		if m := ex.candidateSearch(st, q); m != nil {
			ex.OverApprox["solver unknown: counterexample found by candidate evaluation"]++
			mk(m, kind)
			return
		}
		mk(nil, "unknown-"+kind)
	}
}

// modelOf fetches a model for the state's variables after a Sat answer.
func (ex *Exec) modelOf(st *State) map[string]uint64 {
	m := ex.S.Values(st.Nondet)
	ex.S.Done()
	return m
}

func (ex *Exec) evalModel(st *State, cond *smt.Term) (bool, bool) {
	if st.Model == nil || ex.NoModelCache {
		return false, false
	}
	v, ok := smt.Eval(cond, st.Model, map[int]uint64{})
	return v == 1, ok
}

// checkWithModel decides pc /\ c and returns a model when sat.
func (ex *Exec) checkWithModel(st *State, c *smt.Term) (smt.Result, map[string]uint64) {
	if qsitesOn {
		qsitesMu.Lock()
		qsites[ex.where(st)]++
		qsitesMu.Unlock()
	}
	r := ex.S.Check(st.PC, c)
	if r == smt.Sat {
		return r, ex.modelOf(st)
	}
	return r, nil
}

// feasible reports which sides of cond are feasible under the path condition, with models.
func (ex *Exec) feasible(st *State, cond *smt.Term) (t, f bool, mt, mf map[string]uint64) {
	if v, ok := ex.evalModel(st, cond); ok {
		ex.ModelHits++
		if v {
			r, m := ex.checkWithModel(st, ex.C.Not(cond))
			return true, r != smt.Unsat, st.Model, m
		}
		r, m := ex.checkWithModel(st, cond)
		return r != smt.Unsat, true, m, st.Model
	}
	rt, m1 := ex.checkWithModel(st, cond)
	if rt == smt.Unsat {
		return false, true, nil, st.Model
	}
	rf, m2 := ex.checkWithModel(st, ex.C.Not(cond))
	return rt != smt.Unsat, rf != smt.Unsat, m1, m2
}

// assume adds cond to the path; returns false if the path becomes infeasible.
func (ex *Exec) assume(st *State, cond *smt.Term) bool {
	if cond.IsConst() {
		return cond.Val == 1
	}
	if v, ok := ex.evalModel(st, cond); ok && v {
		ex.ModelHits++
		st.PC = append(st.PC, cond)
		return true
	}
	r, m := ex.checkWithModel(st, cond)
	if r == smt.Unsat {
		return false
	}
	st.PC = append(st.PC, cond)
	st.Model = m
	return true
}

// branch splits on cond: returns the state continuing with cond true (may be nil) and the false side.
// The caller's state st is reused for one side.
func (ex *Exec) branch(st *State, cond *smt.Term, site ssa.Instruction) (tst, fst *State) {
	if cond.IsConst() {
		if cond.Val == 1 {
			return st, nil
		}
		return nil, st
	}
	t, f, mt, mf := ex.feasible(st, cond)
	switch {
	case t && f:
		ex.Forks++
		o := st.fork()
		st.PC = append(st.PC, cond)
		st.Model = mt
		o.PC = append(o.PC, ex.C.Not(cond))
		o.Model = mf
		return st, o
	case t:
		return st, nil
	case f:
		return nil, st
	}
	return nil, nil
}

// concretize splits on the possible values of a BV term within [lo,hi]; returns the states paired with values.
func (ex *Exec) concretize(st *State, t *smt.Term, lo, hi int64) []struct {
	St *State
	V  int64
} {
	var out []struct {
		St *State
		V  int64
	}
	if t.IsConst() {
		v := int64(t.Val)
		if t.Sort.W < 64 {
			v = int64(t.Val) // callers pass 64-bit ints
		}
		return append(out, struct {
			St *State
			V  int64
		}{st, v})
	}
	for v := lo; v <= hi; v++ {
		c := ex.C.Eq(t, ex.C.BVConst(uint64(v), t.Sort.W))
		r, m := ex.checkWithModel(st, c)
		if r == smt.Unsat {
			continue
		}
		o := st.fork()
		o.Model = m
		o.PC = append(o.PC, c)
		out = append(out, struct {
			St *State
			V  int64
		}{o, v})
	}
	ex.Forks += len(out)
	return out
}

// ---- driver ----

func (ex *Exec) push(st *State) {
	if ex.parallel {
		ex.sh.mu.Lock()
		ex.sh.queue = append(ex.sh.queue, st)
		ex.sh.mu.Unlock()
		ex.sh.cond.Signal()
		return
	}
	ex.work = append(ex.work, st)
}

// worker clones the executor for a parallel worker (own solver, shared read-only program state).
func (ex *Exec) worker(id int) (*Exec, error) {
	s, err := smt.NewSolver(SolverTimeoutMs)
	if err != nil {
		return nil, err
	}
	w := *ex
	w.S = s
	w.ID = id
	w.Findings = nil
	w.Reached = map[string]int{}
	w.OverApprox = map[string]int{}
	w.KnownHits = map[string]int{}
	w.KnownModels = map[string]map[string]uint64{}
	w.IntrHit = map[string]int64{}
	w.PathEnds = map[string]int{}
	w.Digests = map[string]string{}
	w.Samples = nil
	w.raceSeen = nil
	w.NontrivPaths = 0
	w.parallel = true
	w.Paths, w.Instrs, w.Forks, w.Obligations, w.Trivial, w.ModelHits = 0, 0, 0, 0, 0, 0
	return &w, nil
}

// RunParallel explores fn with n workers sharing one queue of states.
func (ex *Exec) RunParallel(fn *ssa.Function, n int) []*Exec {
	st := &State{Heap: Heap{ex.base, map[ObjID]*Object{}}, NextObj: ObjID(len(ex.base) + 1000), Visits: map[*ssa.BasicBlock]int{}}
	st.Gs = []*G{{ID: 0}}
	ex.pushFrame(st, fn, nil, nil, nil)
	ex.sh.queue = []*State{st}
	var ws []*Exec
	var wg sync.WaitGroup
	for i := 0; i < n; i++ {
		w, err := ex.worker(i)
		if err != nil {
			panic(err)
		}
		ws = append(ws, w)
		wg.Add(1)
		go func(w *Exec) {
			defer wg.Done()
			sh := w.sh
			for {
				sh.mu.Lock()
				for len(sh.queue) == 0 && sh.active > 0 {
					sh.cond.Wait()
				}
				if len(sh.queue) == 0 {
					sh.mu.Unlock()
					sh.cond.Broadcast()
					return
				}
				s := sh.queue[len(sh.queue)-1]
				sh.queue = sh.queue[:len(sh.queue)-1]
				if (w.MaxPaths > 0 && sh.paths >= int64(w.MaxPaths)) || (!w.Deadline.IsZero() && time.Now().After(w.Deadline)) {
					sh.truncated = true
					sh.queue = nil
					sh.mu.Unlock()
					sh.cond.Broadcast()
					continue
				}
				sh.paths++
				sh.active++
				sh.mu.Unlock()
				w.runPath(s)
				sh.mu.Lock()
				sh.active--
				sh.mu.Unlock()
				sh.cond.Broadcast()
			}
		}(w)
	}
	wg.Wait()
	return ws
}

// RunFunction runs fn (no args) from a fresh state derived from the frozen base heap.
func (ex *Exec) RunFunction(fn *ssa.Function) {
	st := &State{Heap: Heap{ex.base, map[ObjID]*Object{}}, NextObj: ObjID(len(ex.base) + 1000), Visits: map[*ssa.BasicBlock]int{}}
	g := &G{ID: 0}
	st.Gs = []*G{g}
	ex.pushFrame(st, fn, nil, nil, nil)
	ex.push(st)
	for len(ex.work) > 0 {
		s := ex.work[len(ex.work)-1]
		ex.work = ex.work[:len(ex.work)-1]
		ex.runPath(s)
	}
}

func (ex *Exec) pushFrame(st *State, fn *ssa.Function, args []Value, env []Value, retTo ssa.Value) {
	if len(fn.Blocks) == 0 {
		ex.unsupported(st, "external function "+fn.String())
	}
	fi := ex.info(fn)
	atomic.AddInt64(&fi.Calls, 1)
	fr := &Frame{Fn: fn, Info: fi, Block: fn.Blocks[0], Regs: make([]Value, fi.N), RetTo: retTo, Env: env}
	copy(fr.Regs, args)
	g := st.g()
	if len(g.Frames) > 400 {
		// no harness program nests calls this deep by itself: unbounded recursion of the code under test (a stack
		// overflow kills the process; confirmed or dropped by the native replay like every other finding)
		ex.report(st, "unwind", "call depth exceeds 400 frames (unbounded recursion) in "+fn.String(), nil)
		panic(pathEnd{"call depth"})
	}
	g.Frames = append(g.Frames, fr)
}

func (ex *Exec) endPath(st *State, reason string) {
	ex.Paths++
	if ex.PathEnds != nil {
		k := reason
		if i := strings.Index(k, ":"); i > 0 {
			k = k[:i]
		}
		ex.PathEnds[k]++
	}
	if st.Nontriv {
		ex.NontrivPaths++
	}
	if ex.Verbose {
		fmt.Fprintf(os.Stderr, "path %d end: %s steps=%d\n", ex.Paths, reason, st.Steps)
	}
}

func (ex *Exec) runPath(st *State) {
	for ex.runPathOnce(st) {
	}
}

// runPathOnce runs st until its path ends; true => a recoverable Go panic was raised and the loop is to be re-entered
// (the goroutine is now unwinding).
func (ex *Exec) runPathOnce(st *State) (again bool) {
	defer func() {
		if r := recover(); r != nil {
			switch e := r.(type) {
			case pathEnd:
				if strings.HasPrefix(e.reason, "unsupported") {
					ex.Findings = append(ex.Findings, Finding{Kind: "unsupported", Msg: e.reason})
				}
				ex.endPath(st, e.reason)
			case goPanicSignal:
				// a Go runtime panic that is certain on this path
				if ex.recoverable(st) {
					ex.beginUnwind(st, e.msg, e.val)
					again = true
					return
				}
				ex.report(st, "panic", e.msg, nil)
				ex.endPath(st, "panic: "+e.msg)
			default:
				msg := fmt.Sprint(r)
				if len(msg) > 200 {
					msg = msg[:200]
				}
				wh := "?"
				func() {
					defer func() { recover() }()
					wh = ex.where(st)
				}()
				if ex.Verbose || os.Getenv("GOSYM_DEBUG") != "" {
					fmt.Fprintln(os.Stderr, "INTERNAL at", wh, ":", r)
					fmt.Fprintln(os.Stderr, string(debug.Stack()))
				}
				ex.Findings = append(ex.Findings, Finding{Kind: "engine-error", Msg: msg, Where: wh})
				ex.endPath(st, "engine-error")
			}
		}
	}()
	for {
		if st.Steps > ex.MaxSteps {
			ex.report(st, "budget", "instruction budget exceeded", nil)
			ex.endPath(st, "budget")
			return false
		}
		g := st.g()
		if (g.Paniced || g.Recovered) && g.Status == GRunnable && len(g.Frames) > 0 && len(g.Frames) == g.UnwindLevel {
			st.Steps++
			if !ex.unwindStep(st) {
				return false
			}
			continue
		}
		if g.Status != GRunnable || len(g.Frames) == 0 {
			if !ex.schedule(st) {
				return false
			}
			continue
		}
		fr := st.frame()
		in := fr.Block.Instrs[fr.IP]
		st.Steps++
		ex.Instrs++
		if ex.Verbose && st.Steps%2000000 == 0 {
			fmt.Fprintf(os.Stderr, "steps=%d g=%d at %s trace-tail=%v\n", st.Steps, st.Cur, ex.where(st), tail(st.SchedTrace, 6))
		}
		if !ex.step(st, fr, in) {
			return false
		}
		if ex.yieldNow {
			ex.yieldNow = false
			if !ex.schedule(st) {
				return false
			}
		}
	}
}

// schedule picks another runnable goroutine; false => path over.
func (ex *Exec) schedule(st *State) bool {
	if len(st.Gs[0].Frames) == 0 && st.Gs[0].Status == GRunnable {
		// main finished
		st.Gs[0].Status = GDone
	}
	if st.Gs[0].Status == GDone {
		// leak check: goroutines still blocked
		for _, g := range st.Gs[1:] {
			if g.Status != GDone && !(g.Status == GRunnable && len(g.Frames) == 0) {
				if st.Trace != nil || true {
					st.Trace = append(st.Trace, fmt.Sprintf("goroutine %d left in status %d at main exit", g.ID, g.Status))
				}
			}
		}
		ex.endPath(st, "main done")
		return false
	}
	if ex.pickNext(st) {
		return true
	}
	ex.report(st, "deadlock", "all goroutines blocked", nil)
	ex.endPath(st, "deadlock")
	return false
}

func (ex *Exec) jump(st *State, fr *Frame, to *ssa.BasicBlock) {
	if st.TermFuncs != nil && to.Dominates(fr.Block) {
		if n, ok := st.TermFuncs[fr.Fn.String()]; ok {
			fr.BackEdges++
			if fr.BackEdges > n {
				ex.report(st, "unwind", fmt.Sprintf("more than %d loop iterations in %s", n, fr.Fn.String()), nil)
				panic(pathEnd{"unwind(terminates)"})
			}
		}
	}
	fr.Prev = fr.Block
	fr.Block = to
	fr.IP = 0
	// phis are evaluated in parallel
	var vals []Value
	var phis []*ssa.Phi
	for _, in := range to.Instrs {
		phi, ok := in.(*ssa.Phi)
		if !ok {
			break
		}
		for i, p := range to.Preds {
			if p == fr.Prev {
				vals = append(vals, ex.get(st, fr, phi.Edges[i]))
				break
			}
		}
		phis = append(phis, phi)
	}
	for i, phi := range phis {
		ex.set(fr, phi, vals[i])
	}
	fr.IP = len(phis)
}

// doReturn pops the frame and delivers results.
func (ex *Exec) doReturn(st *State, res Value) {
	g := st.g()
	fr := g.Frames[len(g.Frames)-1]
	g.Frames = g.Frames[:len(g.Frames)-1]
	if len(g.Frames) == 0 {
		return
	}
	caller := g.Frames[len(g.Frames)-1]
	if fr.IsDefer {
		return // caller re-executes RunDefers
	}
	if fr.IsMemo {
		caller.Memo = append(caller.Memo, res)
		return // caller re-executes its instruction and finds the result
	}
	if fr.RetTo != nil {
		ex.set(caller, fr.RetTo, res)
	}
	caller.IP++
}

// callValue invokes fn with args; advances the caller when the call completes immediately.
func (ex *Exec) callValue(st *State, fr *Frame, fnv Value, args []Value, retTo ssa.Value, call ssa.CallInstruction) {
	switch f := fnv.(type) {
	case Closure:
		if f.Fn == nil {
			ex.goPanic(st, "call of nil function")
		}
		if r, ok := st.Repl[f.Fn.String()]; ok && !ex.inHarnessFile(fr.Fn) {
			f = r // a replacement stands for the function everywhere except in calls made by the harness itself
		}
		if f.Fn.Synthetic == "package initializer" {
			fr.IP++
			return
		}
		if intr, ok := ex.Intr[f.Fn.String()]; ok {
			if ex.IntrHit != nil {
				ex.IntrHit[f.Fn.String()]++
			}
			if call != nil {
				ex.curSite = ex.site(call.Pos())
			}
			res, ok := intr(ex, st, args, call)
			if !ok {
				return // intrinsic took control (blocked / killed)
			}
			if retTo != nil {
				ex.set(fr, retTo, res)
			}
			fr.IP++
			if pc := ex.pendingCall; pc != nil {
				ex.pendingCall = nil
				fr.IP-- // doReturn of the helper frame advances the caller
				ex.pushFrame(st, pc.Fn, pc.Args, nil, nil)
			}
			return
		}
		if pk := f.Fn.Package(); pk != nil && !ex.Interp(pk.Pkg.Path()) && !ex.InitMode {
			ex.unsupported(st, "call into non-interpreted package: "+f.Fn.String())
		}
		if pk := f.Fn.Package(); (len(f.Fn.Blocks) == 0 || (pk != nil && !ex.Interp(pk.Pkg.Path()))) && ex.InitMode {
			ex.InitSkipped = append(ex.InitSkipped, "call "+f.Fn.String())
			if retTo != nil {
				ex.set(fr, retTo, ex.zero(retTo.Type()))
			}
			fr.IP++
			return
		}
		ex.pushFrame(st, f.Fn, args, f.Env, retTo)
	case BuiltinFn:
		res := ex.builtin(st, f.B.Name(), args, call)
		if retTo != nil {
			ex.set(fr, retTo, res)
		}
		fr.IP++
	default:
		panic(fmt.Sprintf("call of %T", fnv))
	}
}

func (ex *Exec) resolveCall(st *State, fr *Frame, cc *ssa.CallCommon) (Value, []Value) {
	var args []Value
	var fnv Value
	if cc.IsInvoke() {
		recv := ex.get(st, fr, cc.Value).(Iface)
		if recv.T == nil {
			ex.goPanic(st, "nil interface method call "+cc.Method.Name())
		}
		m := ex.Prog.LookupMethod(recv.T, cc.Method.Pkg(), cc.Method.Name())
		if m == nil {
			panic(fmt.Sprintf("no method %s on %v", cc.Method.Name(), recv.T))
		}
		fnv = Closure{Fn: m}
		args = append(args, recv.V)
	} else {
		fnv = ex.get(st, fr, cc.Value)
	}
	for _, a := range cc.Args {
		args = append(args, ex.get(st, fr, a))
	}
	return fnv, args
}

// step executes one instruction; false => path ended or was handed to the worklist.
func (ex *Exec) step(st *State, fr *Frame, in ssa.Instruction) bool {
	fr.MemoIdx = 0
	if fr.PinCount != 0 && (fr.PinBlock != fr.Block || fr.PinIP != fr.IP) {
		fr.PinCount = 0
	}
	fr.PinBlock, fr.PinIP = fr.Block, fr.IP
	if fr.Memo != nil {
		blk, ip := fr.Block, fr.IP
		defer func() {
			if fr.Block != blk || fr.IP != ip {
				fr.Memo = nil
			}
		}()
	}
	switch in := in.(type) {
	case *ssa.Alloc:
		id := st.alloc(&Object{V: ex.zero(in.Type().(*types.Pointer).Elem())})
		ex.set(fr, in, Ptr{Obj: id})
	case *ssa.Store:
		ex.store(st, ex.get(st, fr, in.Addr).(Ptr), ex.get(st, fr, in.Val))
	case *ssa.UnOp:
		x := ex.get(st, fr, in.X)
		switch in.Op {
		case token.MUL:
			ex.set(fr, in, ex.load(st, x.(Ptr)))
		case token.ARROW:
			return ex.recv(st, fr, in, x.(ChanRef))
		default:
			ex.set(fr, in, ex.unop(st, in, x))
		}
	case *ssa.BinOp:
		ex.set(fr, in, ex.binop(st, in.Op, in.X.Type(), ex.get(st, fr, in.X), ex.get(st, fr, in.Y), in))
	case *ssa.FieldAddr:
		p := ex.get(st, fr, in.X).(Ptr)
		if p.Obj == 0 {
			ex.goPanic(st, "nil pointer dereference (field)")
		}
		ex.set(fr, in, p.field(in.Field))
	case *ssa.Field:
		ex.set(fr, in, ex.get(st, fr, in.X).(Struct)[in.Field])
	case *ssa.IndexAddr:
		return ex.indexAddr(st, fr, in)
	case *ssa.Index:
		return ex.index(st, fr, in)
	case *ssa.Lookup:
		return ex.lookup(st, fr, in)
	case *ssa.MapUpdate:
		ex.mapUpdate(st, ex.get(st, fr, in.Map).(MapRef), ex.get(st, fr, in.Key), ex.get(st, fr, in.Value))
	case *ssa.Slice:
		return ex.sliceOp(st, fr, in)
	case *ssa.MakeSlice:
		n := ex.concreteInt(st, ex.get(st, fr, in.Len))
		cp := ex.concreteInt(st, ex.get(st, fr, in.Cap))
		et := in.Type().Underlying().(*types.Slice).Elem()
		arr := make(Array, cp)
		z := ex.zero(et)
		for i := range arr {
			arr[i] = z
		}
		id := st.alloc(&Object{V: arr})
		ex.set(fr, in, Slice{id, 0, int(n), int(cp)})
	case *ssa.MakeMap:
		id := st.alloc(&Object{Map: &MapData{}})
		ex.set(fr, in, MapRef{id})
	case *ssa.MakeChan:
		n := ex.concreteInt(st, ex.get(st, fr, in.Size))
		id := st.alloc(&Object{Chan: &ChanData{Cap: int(n)}})
		ex.set(fr, in, ChanRef{id})
	case *ssa.MakeClosure:
		env := make([]Value, len(in.Bindings))
		for i, b := range in.Bindings {
			env[i] = ex.get(st, fr, b)
		}
		ex.set(fr, in, Closure{Fn: in.Fn.(*ssa.Function), Env: env})
	case *ssa.MakeInterface:
		ex.set(fr, in, Iface{T: in.X.Type(), V: ex.get(st, fr, in.X)})
	case *ssa.ChangeInterface:
		ex.set(fr, in, ex.get(st, fr, in.X))
	case *ssa.ChangeType:
		ex.set(fr, in, ex.get(st, fr, in.X))
	case *ssa.Convert:
		ex.set(fr, in, ex.convert(st, in.X.Type(), in.Type(), ex.get(st, fr, in.X)))
	case *ssa.TypeAssert:
		ex.typeAssert(st, fr, in)
	case *ssa.Extract:
		ex.set(fr, in, ex.get(st, fr, in.Tuple).(Tuple)[in.Index])
	case *ssa.Phi:
		panic("phi reached")
	case *ssa.Range:
		ex.set(fr, in, ex.makeRange(st, in, ex.get(st, fr, in.X)))
	case *ssa.Next:
		ex.next(st, fr, in)
	case *ssa.Jump:
		ex.jump(st, fr, fr.Block.Succs[0])
		return true
	case *ssa.If:
		cond := ex.get(st, fr, in.Cond).(*smt.Term)
		if !cond.IsConst() {
			if ex.symCount == nil {
				ex.symCount = map[ssa.Instruction]int{}
			}
			if fr.Visits == nil {
				fr.Visits = map[*ssa.BasicBlock]int{}
			}
			fr.Visits[fr.Block]++
			if fr.Visits[fr.Block] > ex.Unwind {
				ex.report(st, "unwind", fmt.Sprintf("symbolic branch decided more than %d times", ex.Unwind), nil)
				ex.endPath(st, "unwind")
				return false
			}
		}
		tst, fst := ex.branch(st, cond, in)
		if tst == nil && fst == nil {
			ex.endPath(st, "infeasible")
			return false
		}
		if tst != nil {
			f := tst.frame()
			ex.jump(tst, f, f.Block.Succs[0])
		}
		if fst != nil {
			f := fst.frame()
			ex.jump(fst, f, f.Block.Succs[1])
		}
		if tst != nil && fst != nil {
			ex.push(fst)
			return ex.cont(tst, st)
		}
		if tst != nil {
			return ex.cont(tst, st)
		}
		return ex.cont(fst, st)
	case *ssa.Return:
		var res Value
		switch len(in.Results) {
		case 0:
		case 1:
			res = ex.get(st, fr, in.Results[0])
		default:
			t := make(Tuple, len(in.Results))
			for i, r := range in.Results {
				t[i] = ex.get(st, fr, r)
			}
			res = t
		}
		ex.doReturn(st, res)
		return true
	case *ssa.Call:
		fnv, args := ex.resolveCall(st, fr, &in.Call)
		ex.callValue(st, fr, fnv, args, in, in)
		return !ex.killedCheck()
	case *ssa.Defer:
		fnv, args := ex.resolveCall(st, fr, &in.Call)
		fr.Defers = append(fr.Defers, DeferRec{fnv, args, ex.site(in.Pos())})
	case *ssa.RunDefers:
		if n := len(fr.Defers); n > 0 {
			d := fr.Defers[n-1]
			if ex.runDeferred(st, fr, d) {
				fr.Defers = fr.Defers[:n-1]
			}
			return !ex.killedCheck()
		}
	case *ssa.Go:
		fnv, args := ex.resolveCall(st, fr, &in.Call)
		ex.curSite = ex.site(in.Pos())
		ex.visible(st, "go")
		ng := &G{ID: len(st.Gs)}
		ex.hbFork(st, st.g(), ng)
		st.Gs = append(st.Gs, ng)
		cur := st.Cur
		st.Cur = ng.ID
		cl := fnv.(Closure)
		if _, ok := ex.Intr[cl.Fn.String()]; ok {
			ex.unsupported(st, "go intrinsic")
		}
		ex.pushFrame(st, cl.Fn, args, cl.Env, nil)
		st.Cur = cur
	case *ssa.Send:
		return ex.send(st, fr, in)
	case *ssa.Panic:
		v := ex.get(st, fr, in.X)
		msg := "explicit panic"
		if i, ok := v.(Iface); ok {
			if s, ok := i.V.(Str); ok {
				if cs, ok := s.Concrete(); ok {
					msg = "panic: " + cs
				}
			}
		}
		panic(goPanicSignal{msg: msg, val: v})
	case *ssa.DebugRef:
	default:
		ex.unsupported(st, fmt.Sprintf("instruction %T", in))
	}
	fr.IP++
	return true
}

func (ex *Exec) killedCheck() bool {
	k := ex.killed
	ex.killed = false
	return k
}

// cont continues execution with state s (which may be the same object as cur).
func (ex *Exec) cont(s, cur *State) bool {
	if s == cur {
		return true
	}
	ex.push(s)
	return false
}

// runDeferred starts/executes one deferred call; false => it blocked and must be retried.
func (ex *Exec) runDeferred(st *State, fr *Frame, d DeferRec) bool {
	switch f := d.Fn.(type) {
	case Closure:
		if intr, ok := ex.Intr[f.Fn.String()]; ok {
			ex.curSite = d.Site
			_, done := intr(ex, st, d.Args, nil)
			return done // RunDefers re-executes
		}
		fr.Defers = fr.Defers[:len(fr.Defers)-1]
		ex.pushFrame(st, f.Fn, d.Args, f.Env, nil)
		st.frame().IsDefer = true
		return false
	case BuiltinFn:
		ex.builtin(st, f.B.Name(), d.Args, nil)
	}
	return true
}

func (ex *Exec) concreteInt(st *State, v Value) int64 {
	t := v.(*smt.Term)
	if !t.IsConst() {
		// a size/length must be concrete: split the path over its feasible values (solver-driven)
		x := ex.splitPin(st, t, 64)
		if t.Sort.W < 64 {
			sh := uint(64 - t.Sort.W)
			return int64(x<<sh) >> sh
		}
		return int64(x)
	}
	return int64(t.Val)
}

// ---- channels (deterministic rendezvous) ----

func (ex *Exec) chanObj(st *State, c ChanRef) *ChanData {
	if c.Obj == 0 {
		ex.unsupported(st, "nil channel op")
	}
	o := st.Heap.get(c.Obj)
	cd := *o.Chan
	cd.Buf = append([]Value(nil), o.Chan.Buf...)
	no := &Object{Chan: &cd}
	st.Heap.put(c.Obj, no)
	return no.Chan
}

func (ex *Exec) wake(st *State, ch ObjID, status GStatus) bool {
	for _, g := range st.Gs {
		if g.Status == status && g.WaitCh == ch {
			g.Status = GRunnable
			return true
		}
	}
	return false
}

func (ex *Exec) waiting(st *State, ch ObjID, status GStatus) bool {
	for _, g := range st.Gs {
		if g.Status == status && g.WaitCh == ch {
			return true
		}
	}
	return false
}

func (ex *Exec) send(st *State, fr *Frame, in *ssa.Send) bool {
	c := ex.get(st, fr, in.Chan).(ChanRef)
	cd := ex.chanObj(st, c)
	if cd.Closed {
		ex.goPanic(st, "send on closed channel")
	}
	v := ex.get(st, fr, in.X)
	ex.hbRelease(st, fmt.Sprintf("ch%d", c.Obj))
	if len(cd.Buf) < cd.Cap {
		cd.Buf = append(cd.Buf, v)
		ex.wake(st, c.Obj, GBlockedRecv)
		fr.IP++
		return true
	}
	if cd.Cap == 0 && len(cd.Buf) == 0 && ex.waiting(st, c.Obj, GBlockedRecv) {
		cd.Buf = append(cd.Buf, v) // hand-off slot
		ex.wake(st, c.Obj, GBlockedRecv)
		fr.IP++
		return true
	}
	g := st.g()
	g.Status = GBlockedSend
	g.WaitCh = c.Obj
	return true
}

func (ex *Exec) recv(st *State, fr *Frame, in *ssa.UnOp, c ChanRef) bool {
	cd := ex.chanObj(st, c)
	et := in.X.Type().Underlying().(*types.Chan).Elem()
	deliver := func(v Value, ok bool) {
		ex.hbAcquire(st, fmt.Sprintf("ch%d", c.Obj))
		if in.CommaOk {
			ex.set(fr, in, Tuple{v, ex.C.BoolConst(ok)})
		} else {
			ex.set(fr, in, v)
		}
		fr.IP++
	}
	if len(cd.Buf) > 0 {
		v := cd.Buf[0]
		cd.Buf = cd.Buf[1:]
		ex.wake(st, c.Obj, GBlockedSend)
		deliver(v, true)
		return true
	}
	if cd.Closed {
		deliver(ex.zero(et), false)
		return true
	}
	ex.wake(st, c.Obj, GBlockedSend)
	g := st.g()
	g.Status = GBlockedRecv
	g.WaitCh = c.Obj
	return true
}

func tail(s []string, n int) []string {
	if len(s) > n {
		return s[len(s)-n:]
	}
	return s
}

// helperCall lets an intrinsic obtain the result of an interpreted function: the first time the frame is
// pushed and ok=false is returned (the intrinsic must then return (nil,false) without side effects);
// when the helper returns, the calling instruction is executed again and helperCall yields the result.
func (ex *Exec) helperCall(st *State, fn *ssa.Function, args []Value, env []Value) (Value, bool) {
	fr := st.frame()
	if fr.MemoIdx < len(fr.Memo) {
		v := fr.Memo[fr.MemoIdx]
		fr.MemoIdx++
		return v, true
	}
	if r, ok := st.Repl[fn.String()]; ok {
		fn, env = r.Fn, r.Env
	}
	if intr, ok := ex.Intr[fn.String()]; ok {
		// the helper is itself an intrinsic: run it in place (it must complete at once)
		if v, done := intr(ex, st, args, nil); done {
			return v, true
		}
		ex.unsupported(st, "helper call of a blocking intrinsic "+fn.String())
	}
	ex.pushFrame(st, fn, args, env, nil)
	st.frame().IsMemo = true
	return nil, false
}

func sub0(p Ptr) int {
	if len(p.Path) > 0 {
		return p.Path[0]
	}
	return -2
}

// inHarnessFile: fn (or the function it is nested in) is defined in an injected harness file.
func (ex *Exec) inHarnessFile(fn *ssa.Function) bool {
	for fn != nil && fn.Parent() != nil {
		fn = fn.Parent()
	}
	if fn == nil || fn.Prog == nil || !fn.Pos().IsValid() {
		return false
	}
	return strings.Contains(fn.Prog.Fset.Position(fn.Pos()).Filename, "zz_verif_")
}

// query-site profile (GOSYM_QSITES=1): which branch sites ask the solver
var qsitesOn = os.Getenv("GOSYM_QSITES") != ""
var qsitesMu sync.Mutex
var qsites = map[string]int{}

// DumpQSites prints the branch sites with the most solver-decided conditions.
func DumpQSites() {
	if !qsitesOn {
		return
	}
	type kv struct {
		k string
		v int
	}
	var l []kv
	for k, v := range qsites {
		l = append(l, kv{k, v})
	}
	sort.Slice(l, func(a, b int) bool { return l[a].v > l[b].v })
	for i, e := range l {
		if i >= 25 {
			break
		}
		fmt.Fprintf(os.Stderr, "qsite %7d %s\n", e.v, e.k)
	}
}
