package sym

import (
	"fmt"
	"go/types"
	"math"
	"sort"
	"strings"

	"gosym/smt"

	"golang.org/x/tools/go/ssa"
)

// formatting of executor values (fmt.Sprint / Sprintf / Errorf ...).
//
// Concrete operands are formatted exactly (natively); values with Error()/String() methods are
// rendered by running the interpreted method (helperCall); symbolic strings are spliced in as byte
// terms; a symbolic float constrained to a small integer range is rendered digit-wise; everything
// else becomes the placeholder "<?>" and is counted in OverApprox.

type fmtStatus int

const (
	fmtOK fmtStatus = iota
	fmtPending
	fmtOpaque
)

func (ex *Exec) methodOf(t types.Type, name string) *ssa.Function {
	ms := ex.Prog.MethodSets.MethodSet(t)
	for i := 0; i < ms.Len(); i++ {
		sel := ms.At(i)
		if sel.Obj().Name() == name {
			sig := sel.Type().(*types.Signature)
			if sig.Params().Len() == 0 && sig.Results().Len() == 1 && isString(sig.Results().At(0).Type()) {
				return ex.Prog.MethodValue(sel)
			}
		}
	}
	return nil
}

func (ex *Exec) goScalar(x *smt.Term, t types.Type) interface{} {
	switch x.Sort.K {
	case smt.KBool:
		return x.Val == 1
	case smt.KFP:
		if x.Sort.W == 32 {
			return math.Float32frombits(uint32(x.Val))
		}
		return math.Float64frombits(x.Val)
	}
	signed := true
	if t != nil {
		_, signed, _ = intWidth(t)
	}
	if signed {
		w := x.Sort.W
		sh := uint(64 - w)
		return int64(x.Val<<sh) >> sh
	}
	return x.Val
}

// fmtVal renders v (dynamic type t) for verb 'v' or 's'.
func (ex *Exec) fmtVal(st *State, v Value, t types.Type, verb byte, top bool) (Str, fmtStatus) {
	C := ex.C
	ex.fmtDepth++
	defer func() { ex.fmtDepth-- }()
	if ex.fmtDepth > 200 {
		// fmt follows slices, maps and interfaces without cycle detection: a value that contains itself recurses until
		// the stack overflows
		ex.report(st, "unwind", "call depth exceeds 400 frames (unbounded recursion) in fmt formatting a value that contains itself", nil)
		panic(pathEnd{"call depth"})
	}
	switch x := v.(type) {
	case Iface:
		if x.T == nil {
			if top {
				return ex.strConst("<nil>"), fmtOK
			}
			return ex.strConst("<nil>"), fmtOK
		}
		if n, ok := x.V.(Native); ok {
			if r, ok := n.V.(rtypeRef); ok {
				return ex.strConst(reflTypeString(r.T)), fmtOK
			}
		}
		if verb == 'v' || verb == 's' {
			for _, mname := range []string{"Error", "String"} {
				if m := ex.methodOf(x.T, mname); m != nil {
					if mname == "Error" && !types.Implements(x.T, errorIface()) {
						continue
					}
					if p, ok := x.V.(Ptr); ok && p.Obj == 0 {
						return ex.strConst("<nil>"), fmtOK
					}
					if len(m.Blocks) == 0 {
						return Str{}, fmtOpaque
					}
					if pk := m.Package(); pk != nil && !ex.Interp(pk.Pkg.Path()) {
						if _, isIntr := ex.Intr[m.String()]; !isIntr {
							return Str{}, fmtOpaque
						}
					}
					r, ok := ex.helperCall(st, m, []Value{x.V}, nil)
					if !ok {
						return Str{}, fmtPending
					}
					return r.(Str), fmtOK
				}
			}
		}
		return ex.fmtVal(st, x.V, x.T, verb, false)
	case Str:
		return x, fmtOK
	case *smt.Term:
		if x.IsConst() {
			return ex.strConst(fmt.Sprintf("%"+string(verb), ex.goScalar(x, t))), fmtOK
		}
		if x.Sort.K == smt.KBool {
			// symbolic bool: both renderings have different lengths -> split
			tst, fst := ex.branch(st, x, nil)
			if tst != nil && fst != nil {
				ex.push(fst) // re-executes the instruction under not x
				return ex.strConst("true"), fmtOK
			}
			if tst != nil {
				return ex.strConst("true"), fmtOK
			}
			return ex.strConst("false"), fmtOK
		}
		if x.Sort.K == smt.KFP {
			return ex.fmtSmallFloat(st, x)
		}
		if x.Sort.K == smt.KBV {
			return ex.fmtSmallInt(st, x, t)
		}
		return Str{}, fmtOpaque
	case Slice:
		var et types.Type
		if t != nil {
			if sl, ok := t.Underlying().(*types.Slice); ok {
				et = sl.Elem()
			}
		}
		out := []*smt.Term{C.BVConst('[', 8)}
		for i := 0; i < x.Len; i++ {
			if i > 0 {
				out = append(out, C.BVConst(' ', 8))
			}
			e := st.Heap.get(x.Arr).V.(Array)[x.Off+i]
			s, stt := ex.fmtVal(st, e, et, verb, false)
			if stt != fmtOK {
				return Str{}, stt
			}
			out = append(out, s.B...)
		}
		out = append(out, C.BVConst(']', 8))
		return Str{out}, fmtOK
	case MapRef:
		md := ex.mapData(st, x)
		var kt, vt types.Type
		if t != nil {
			if m, ok := t.Underlying().(*types.Map); ok {
				kt, vt = m.Key(), m.Elem()
			}
		}
		type ent struct {
			k    Str
			rank int
			num  float64
			v    Str
		}
		var ents []ent
		for i := range md.Keys {
			ks, stt := ex.fmtVal(st, md.Keys[i], kt, verb, false)
			if stt != fmtOK {
				return Str{}, stt
			}
			vs, stt := ex.fmtVal(st, md.Vals[i], vt, verb, false)
			if stt != fmtOK {
				return Str{}, stt
			}
			e := ent{k: ks, v: vs}
			// ordering as in internal/fmtsort: by kind (numbers before strings), then value
			kv := md.Keys[i]
			if ifc, ok := kv.(Iface); ok {
				kv = ifc.V
			}
			switch kk := kv.(type) {
			case *smt.Term:
				if !kk.IsConst() {
					return Str{}, fmtOpaque
				}
				e.rank = 1
				switch g := ex.goScalar(kk, nil).(type) {
				case float64:
					e.num = g
				case int64:
					e.num = float64(g)
				case bool:
					e.rank = 2
					if g {
						e.num = 1
					}
				}
			case Str:
				if _, ok := kk.Concrete(); !ok && len(md.Keys) > 1 {
					return Str{}, fmtOpaque
				}
				e.rank = 3
			case nil:
				e.rank = 0
			default:
				if len(md.Keys) > 1 {
					return Str{}, fmtOpaque
				}
			}
			ents = append(ents, e)
		}
		sort.SliceStable(ents, func(a, b int) bool {
			if ents[a].rank != ents[b].rank {
				return ents[a].rank < ents[b].rank
			}
			if ents[a].rank == 3 {
				sa, _ := ents[a].k.Concrete()
				sb, _ := ents[b].k.Concrete()
				return sa < sb
			}
			return ents[a].num < ents[b].num
		})
		out := ex.strConst("map[").B
		for i, e := range ents {
			if i > 0 {
				out = append(out, C.BVConst(' ', 8))
			}
			out = append(out, e.k.B...)
			out = append(out, C.BVConst(':', 8))
			out = append(out, e.v.B...)
		}
		out = append(out, C.BVConst(']', 8))
		return Str{out}, fmtOK
	case nil:
		return ex.strConst("<nil>"), fmtOK
	}
	return Str{}, fmtOpaque
}

var errIface *types.Interface

func errorIface() *types.Interface {
	if errIface == nil {
		errIface = types.Universe.Lookup("error").Type().Underlying().(*types.Interface)
	}
	return errIface
}

// fmtSmallFloat renders a symbolic float64 when the path constrains it to an integer in [-99,99]
// (Go prints such floats without exponent or fraction).  The path is split on sign and digit count.
func (ex *Exec) fmtSmallFloat(st *State, x *smt.Term) (Str, fmtStatus) {
	C := ex.C
	if x.Op == smt.OFFromSBV {
		// float64(i) of a symbolic integer: decide the range on the integer (no FP reasoning needed)
		if s, stt := ex.fmtSmallInt(st, x.Args[0], nil); stt == fmtOK {
			return s, stt
		}
	}
	lo, hi := C.FPConst(-99), C.FPConst(99)
	isInt := C.Eq(C.FPUn(smt.OFFloor, x), x)
	inr := C.And(C.And(C.FPCmp(smt.OFLe, lo, x), C.FPCmp(smt.OFLe, x, hi)), isInt)
	// must hold on this path (otherwise: opaque)
	if r := ex.S.Check(st.PC, C.Not(inr)); r != smt.Unsat {
		if r == smt.Sat {
			ex.S.Done()
		}
		return Str{}, fmtOpaque
	}
	iv := C.FPToSBV(x, 64)
	return ex.fmtIntDigits(st, iv, C.And(C.FPCmp(smt.OFEq, x, C.FPConst(0)), C.Not(C.Eq(x, C.FPConst(0)))))
}

func (ex *Exec) fmtSmallInt(st *State, x *smt.Term, t types.Type) (Str, fmtStatus) {
	C := ex.C
	v := x
	if v.Sort.W < 64 {
		_, signed, _ := intWidth(t)
		if t == nil || signed {
			v = C.Sext(v, 64)
		} else {
			v = C.Zext(v, 64)
		}
	}
	inr := C.And(C.BVCmp(smt.OSle, C.BVConst(uint64(0xffffffffffffff9d), 64), v), C.BVCmp(smt.OSle, v, C.BVConst(99, 64)))
	if r := ex.S.Check(st.PC, C.Not(inr)); r != smt.Unsat {
		if r == smt.Sat {
			ex.S.Done()
		}
		return Str{}, fmtOpaque
	}
	return ex.fmtIntDigits(st, v, C.False)
}

// fmtIntDigits: iv in [-99,99]; negZero => prints "-0".  Splits the path by re-executing forks.
func (ex *Exec) fmtIntDigits(st *State, iv *smt.Term, negZero *smt.Term) (Str, fmtStatus) {
	C := ex.C
	c := func(v int64) *smt.Term { return C.BVConst(uint64(v), 64) }
	decide := func(cond *smt.Term) bool {
		tst, fst := ex.branch(st, cond, nil)
		if tst != nil && fst != nil {
			ex.push(fst) // fork re-executes the instruction with the condition false
			return true
		}
		if tst == nil && fst == nil {
			panic(pathEnd{"infeasible"})
		}
		return tst != nil
	}
	if !(negZero.IsConst() && negZero.Val == 0) && decide(negZero) {
		return ex.strConst("-0"), fmtOK
	}
	neg := decide(C.BVCmp(smt.OSlt, iv, c(0)))
	abs := iv
	var out []*smt.Term
	if neg {
		abs = C.BVUn(smt.ONeg, iv)
		out = append(out, C.BVConst('-', 8))
	}
	two := decide(C.BVCmp(smt.OSle, c(10), abs))
	digit := func(d *smt.Term) *smt.Term { return C.BVBin(smt.OAdd, C.Extract(d, 7, 0), C.BVConst('0', 8)) }
	if two {
		out = append(out, digit(C.BVBin(smt.OUDiv, abs, c(10))), digit(C.BVBin(smt.OURem, abs, c(10))))
	} else {
		out = append(out, digit(abs))
	}
	return Str{out}, fmtOK
}

// sprintf implements Sprintf for the verbs ecal uses.
func (ex *Exec) sprintf(st *State, f string, va Slice) (Str, fmtStatus) {
	C := ex.C
	var out []*smt.Term
	var arr Array
	if va.Len > 0 {
		arr = st.Heap.get(va.Arr).V.(Array)
	}
	argi := 0
	for i := 0; i < len(f); i++ {
		if f[i] != '%' {
			out = append(out, C.BVConst(uint64(f[i]), 8))
			continue
		}
		j := i + 1
		for j < len(f) && strings.IndexByte("+-# 0123456789.", f[j]) >= 0 {
			j++
		}
		if j >= len(f) {
			return Str{}, fmtOpaque
		}
		verb := f[j]
		spec := f[i : j+1]
		i = j
		if verb == '%' {
			out = append(out, C.BVConst('%', 8))
			continue
		}
		if argi >= va.Len {
			out = append(out, ex.strConst("%!"+string(verb)+"(MISSING)").B...)
			continue
		}
		a := arr[va.Off+argi]
		argi++
		ifc, _ := a.(Iface)
		if (verb == 'v' || verb == 's') && len(spec) == 2 {
			s, stt := ex.fmtVal(st, a, nil, verb, true)
			if stt == fmtPending {
				return Str{}, stt
			}
			if stt == fmtOpaque {
				// only this operand is not representable: keep the rest of the text exact
				ex.OverApprox["fmt: opaque operand rendered as <?>"]++
				s = ex.strConst("<?>")
			}
			out = append(out, s.B...)
			continue
		}
		if spec == "%#v" {
			// Go-syntax rendering: natively, on a deep copy of a fully concrete value of the shapes ECAL values have
			if txt, ok := ex.goSyntax(st, a); ok {
				out = append(out, ex.strConst(txt).B...)
				continue
			}
		}
		if verb == 'T' && len(spec) == 2 {
			// the dynamic type, spelled as package reflect spells it
			ts := "<nil>"
			if ifc.T != nil {
				ts = strings.ReplaceAll(reflTypeString(ifc.T), "interface{}", "interface {}")
				if ts == "any" {
					ts = "interface {}"
				}
			}
			out = append(out, ex.strConst(ts).B...)
			continue
		}
		// other verbs / flags: concrete scalars and strings only
		switch x := ifc.V.(type) {
		case Str:
			cs, ok := x.Concrete()
			if !ok {
				return Str{}, fmtOpaque
			}
			out = append(out, ex.strConst(fmt.Sprintf(spec, cs)).B...)
		case *smt.Term:
			if !x.IsConst() {
				return Str{}, fmtOpaque
			}
			g := ex.goScalar(x, ifc.T)
			if b, ok := ifc.T.Underlying().(*types.Basic); ok {
				switch b.Kind() {
				case types.Int:
					g = int(g.(int64))
				case types.Int32:
					g = int32(g.(int64))
				case types.Uint8:
					g = uint8(g.(uint64))
				}
			}
			out = append(out, ex.strConst(fmt.Sprintf(spec, g)).B...)
		default:
			if verb == 'v' || verb == 's' {
				s, stt := ex.fmtVal(st, a, nil, verb, true)
				if stt != fmtOK {
					return Str{}, stt
				}
				if cs, ok := s.Concrete(); ok {
					out = append(out, ex.strConst(fmt.Sprintf(spec[:len(spec)-1]+"s", cs)).B...)
					continue
				}
			}
			return Str{}, fmtOpaque
		}
	}
	if argi < va.Len {
		return Str{}, fmtOpaque // EXTRA args
	}
	return Str{out}, fmtOK
}

// sprint implements Sprint (spaces between operands when neither is a string) / Sprintln.
func (ex *Exec) sprint(st *State, va Slice, ln bool) (Str, fmtStatus) {
	C := ex.C
	var out []*smt.Term
	var arr Array
	if va.Len > 0 {
		arr = st.Heap.get(va.Arr).V.(Array)
	}
	prevStr := false
	for i := 0; i < va.Len; i++ {
		a := arr[va.Off+i]
		isStr := false
		if ifc, ok := a.(Iface); ok && ifc.T != nil {
			if b, ok := ifc.T.Underlying().(*types.Basic); ok && b.Kind() == types.String {
				isStr = true
			}
		}
		if i > 0 && (ln || (!isStr && !prevStr)) {
			out = append(out, C.BVConst(' ', 8))
		}
		s, stt := ex.fmtVal(st, a, nil, 'v', true)
		if stt != fmtOK {
			return Str{}, stt
		}
		out = append(out, s.B...)
		prevStr = isStr
	}
	if ln {
		out = append(out, C.BVConst('\n', 8))
	}
	return Str{out}, fmtOK
}

func registerFmt(ex *Exec) {
	I := ex.Intr
	C := ex.C
	opaque := func(ex *Exec, what string) Str {
		ex.OverApprox[what]++
		return ex.strConst("<?>")
	}
	I["fmt.Sprintf"] = func(ex *Exec, st *State, args []Value, call ssa.CallInstruction) (Value, bool) {
		f, ok := args[0].(Str).Concrete()
		if !ok {
			return opaque(ex, "fmt.Sprintf(symbolic format)"), true
		}
		s, stt := ex.sprintf(st, f, args[1].(Slice))
		switch stt {
		case fmtPending:
			return nil, false
		case fmtOpaque:
			return opaque(ex, "fmt.Sprintf(opaque operand)"), true
		}
		return s, true
	}
	I["fmt.Errorf"] = func(ex *Exec, st *State, args []Value, call ssa.CallInstruction) (Value, bool) {
		f, ok := args[0].(Str).Concrete()
		if !ok {
			return ex.nativeErrorStr(st, opaque(ex, "fmt.Errorf(symbolic format)")), true
		}
		s, stt := ex.sprintf(st, strings.ReplaceAll(f, "%w", "%v"), args[1].(Slice))
		switch stt {
		case fmtPending:
			return nil, false
		case fmtOpaque:
			return ex.nativeErrorStr(st, opaque(ex, "fmt.Errorf(opaque operand)")), true
		}
		return ex.nativeErrorStr(st, s), true
	}
	mkSprint := func(ln bool) Intrinsic {
		return func(ex *Exec, st *State, args []Value, call ssa.CallInstruction) (Value, bool) {
			s, stt := ex.sprint(st, args[0].(Slice), ln)
			switch stt {
			case fmtPending:
				return nil, false
			case fmtOpaque:
				return opaque(ex, "fmt.Sprint(opaque operand)"), true
			}
			return s, true
		}
	}
	I["fmt.Sprint"] = mkSprint(false)
	I["fmt.Sprintln"] = mkSprint(true)
	discard := func(ex *Exec, st *State, args []Value, call ssa.CallInstruction) (Value, bool) {
		return Tuple{C.BVConst(0, 64), Iface{}}, true
	}
	for _, n := range []string{"fmt.Printf", "fmt.Println", "fmt.Print"} {
		I[n] = discard
	}
	// Fprint*: formatted exactly and written through the writer's own (interpreted) Write method; writers outside
	// the interpreted packages (os.File: stdout/stderr) swallow the text
	fprint := func(mode int) Intrinsic {
		return func(ex *Exec, st *State, args []Value, call ssa.CallInstruction) (Value, bool) {
			w, _ := args[0].(Iface)
			var s Str
			var stt fmtStatus
			switch mode {
			case 0:
				f, ok := args[1].(Str).Concrete()
				if !ok {
					s, stt = opaque(ex, "fmt.Fprintf(symbolic format)"), fmtOK
				} else {
					s, stt = ex.sprintf(st, f, args[2].(Slice))
				}
			case 1:
				s, stt = ex.sprint(st, args[1].(Slice), false)
			default:
				s, stt = ex.sprint(st, args[1].(Slice), true)
			}
			if stt == fmtPending {
				return nil, false
			}
			if stt == fmtOpaque {
				s = opaque(ex, "fmt.Fprint(opaque operand)")
			}
			n := Tuple{C.BVConst(uint64(len(s.B)), 64), Iface{}}
			if w.T == nil {
				ex.goPanic(st, "nil pointer dereference (nil io.Writer)")
			}
			m := ex.Prog.LookupMethod(w.T, nil, "Write")
			if m == nil || len(m.Blocks) == 0 {
				return n, true
			}
			if pk := m.Package(); pk == nil || !ex.Interp(pk.Pkg.Path()) || pk.Pkg.Path() == "os" {
				return n, true
			}
			arr := make(Array, len(s.B))
			for i, b := range s.B {
				arr[i] = b
			}
			id := st.alloc(&Object{V: arr})
			ex.pendingCall = &pendingCall{Fn: m, Args: []Value{w.V, Slice{id, 0, len(arr), len(arr)}}}
			return n, true
		}
	}
	I["fmt.Fprintf"] = fprint(0)
	I["fmt.Fprint"] = fprint(1)
	I["fmt.Fprintln"] = fprint(2)
}

// nativeErrorStr builds an *errors.errorString with a possibly symbolic message.
func (ex *Exec) nativeErrorStr(st *State, msg Str) Value {
	pkg := ex.Prog.ImportedPackage("errors")
	t := pkg.Type("errorString")
	id := st.alloc(&Object{V: Struct{msg}})
	return Iface{T: typesPointer(t.Type()), V: Ptr{Obj: id}}
}

// goSyntax renders v with %#v when it converts to plain Go data (nil, bool, float64, string, []interface{}, maps).
func (ex *Exec) goSyntax(st *State, v Value) (txt string, ok bool) {
	defer func() {
		if r := recover(); r != nil {
			switch r.(type) {
			case jsonUnsupported, jsonFailed, jsonPending:
				txt, ok = "", false
			default:
				panic(r)
			}
		}
	}()
	ex.jsonDepth = 0
	g := ex.toGoDeep(st, v, nil)
	switch g.(type) {
	case nil, bool, float64, string, []interface{}, map[interface{}]interface{}, map[string]interface{}:
		return fmt.Sprintf("%#v", g), true
	}
	return "", false
}
