// Package sym: path-forking symbolic executor over go/ssa (prototype).
package sym

import (
	"fmt"
	"go/types"

	"gosym/smt"

	"golang.org/x/tools/go/ssa"
)

type Value interface{}

type ObjID int

// Ptr addresses a location inside a heap object.
type Ptr struct {
	Obj  ObjID
	Path []int
	// symbolic final index: the location is Path + [SymOff + Sym], Sym in [0,SymN)
	Sym    *smt.Term
	SymN   int
	SymOff int
}

type Slice struct {
	Arr           ObjID
	Off, Len, Cap int
}

type MapRef struct{ Obj ObjID }
type ChanRef struct{ Obj ObjID }

type Iface struct {
	T types.Type // nil => nil interface
	V Value
}

type Closure struct {
	Fn  *ssa.Function
	Env []Value
}

type BuiltinFn struct{ B *ssa.Builtin }

type Struct []Value
type Array []Value
type Tuple []Value

// Str is a string as a vector of byte terms (constants when concrete).
type Str struct{ B []*smt.Term }

// Native wraps an opaque native Go object (regexp, template, ...).
type Native struct{ V interface{} }

type MapData struct {
	Keys []Value
	Vals []Value
}

type ChanData struct {
	Buf    []Value
	Cap    int
	Closed bool
}

type Object struct {
	V    Value     // cell content (Struct/Array/scalar/...)
	Map  *MapData  // for map objects
	Chan *ChanData // for channel objects
}

func (ex *Exec) strConst(s string) Str {
	b := make([]*smt.Term, len(s))
	for i := 0; i < len(s); i++ {
		b[i] = ex.C.BVConst(uint64(s[i]), 8)
	}
	return Str{b}
}

func (s Str) Concrete() (string, bool) {
	buf := make([]byte, len(s.B))
	for i, t := range s.B {
		if !t.IsConst() {
			return "", false
		}
		buf[i] = byte(t.Val)
	}
	return string(buf), true
}

func intWidth(t types.Type) (w int, signed bool, ok bool) {
	b, isb := t.Underlying().(*types.Basic)
	if !isb {
		return 0, false, false
	}
	switch b.Kind() {
	case types.Int, types.Int64, types.UntypedInt:
		return 64, true, true
	case types.Int8:
		return 8, true, true
	case types.Int16:
		return 16, true, true
	case types.Int32, types.UntypedRune:
		return 32, true, true
	case types.Uint, types.Uint64, types.Uintptr:
		return 64, false, true
	case types.Uint8:
		return 8, false, true
	case types.Uint16:
		return 16, false, true
	case types.Uint32:
		return 32, false, true
	}
	return 0, false, false
}

func isFloat(t types.Type) bool {
	b, ok := t.Underlying().(*types.Basic)
	return ok && (b.Kind() == types.Float64 || b.Kind() == types.Float32 || b.Kind() == types.UntypedFloat)
}
func isString(t types.Type) bool {
	b, ok := t.Underlying().(*types.Basic)
	return ok && (b.Kind() == types.String || b.Kind() == types.UntypedString)
}
func isBool(t types.Type) bool {
	b, ok := t.Underlying().(*types.Basic)
	return ok && (b.Kind() == types.Bool || b.Kind() == types.UntypedBool)
}

// zero returns the zero value of type t.
func (ex *Exec) zero(t types.Type) Value {
	switch u := t.Underlying().(type) {
	case *types.Basic:
		if w, _, ok := intWidth(t); ok {
			return ex.C.BVConst(0, w)
		}
		if isFloat(t) {
			return ex.C.FPConst(0)
		}
		if isString(t) {
			return Str{}
		}
		if isBool(t) {
			return ex.C.False
		}
		if u.Kind() == types.UnsafePointer {
			return Ptr{}
		}
		if u.Kind() == types.UntypedNil {
			return nil
		}
		panic(fmt.Sprintf("zero: basic %v", t))
	case *types.Pointer:
		return Ptr{}
	case *types.Slice:
		return Slice{}
	case *types.Map:
		return MapRef{}
	case *types.Chan:
		return ChanRef{}
	case *types.Interface:
		return Iface{}
	case *types.Signature:
		return Closure{}
	case *types.Struct:
		s := make(Struct, u.NumFields())
		for i := range s {
			s[i] = ex.zero(u.Field(i).Type())
		}
		return s
	case *types.Array:
		a := make(Array, u.Len())
		z := ex.zero(u.Elem())
		for i := range a {
			a[i] = z // aggregates are treated persistently, sharing is fine
		}
		return a
	case *types.Tuple:
		tp := make(Tuple, u.Len())
		for i := range tp {
			tp[i] = ex.zero(u.At(i).Type())
		}
		return tp
	}
	panic(fmt.Sprintf("zero: %T %v", t.Underlying(), t))
}

// getPath / setPath navigate aggregates persistently.
func getPath(v Value, path []int) Value {
	for _, i := range path {
		switch a := v.(type) {
		case Struct:
			v = a[i]
		case Array:
			v = a[i]
		default:
			panic(fmt.Sprintf("getPath into %T", v))
		}
	}
	return v
}

func setPath(v Value, path []int, nv Value) Value {
	if len(path) == 0 {
		return nv
	}
	switch a := v.(type) {
	case Struct:
		c := make(Struct, len(a))
		copy(c, a)
		c[path[0]] = setPath(a[path[0]], path[1:], nv)
		return c
	case Array:
		c := make(Array, len(a))
		copy(c, a)
		c[path[0]] = setPath(a[path[0]], path[1:], nv)
		return c
	}
	panic(fmt.Sprintf("setPath into %T", v))
}

func (p Ptr) field(i int) Ptr {
	np := make([]int, len(p.Path)+1)
	copy(np, p.Path)
	np[len(p.Path)] = i
	return Ptr{Obj: p.Obj, Path: np}
}
