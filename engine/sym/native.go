package sym

import (
	"text/template"
	"strconv"
	"fmt"
	"go/types"
	"math"
	"strings"

	"gosym/smt"

	"golang.org/x/tools/go/ssa"
)

// toGo converts a fully concrete executor value to a native Go value (basic kinds only).
func (ex *Exec) toGo(st *State, v Value, t types.Type) (interface{}, bool) {
	switch x := v.(type) {
	case Str:
		s, ok := x.Concrete()
		return s, ok
	case *smt.Term:
		if !x.IsConst() {
			return nil, false
		}
		switch x.Sort.K {
		case smt.KBool:
			return x.Val == 1, true
		case smt.KFP:
			return math.Float64frombits(x.Val), true
		default:
			_, signed, _ := intWidth(t)
			if signed {
				w := x.Sort.W
				sh := uint(64 - w)
				return int(int64(x.Val<<sh) >> sh), true
			}
			return uint64(x.Val), true
		}
	case Iface:
		if x.T == nil {
			return nil, true
		}
		// error / Stringer values: not converted in the prototype
		if _, ok := x.V.(Str); ok {
			return ex.toGo(st, x.V, x.T)
		}
		if _, ok := x.V.(*smt.Term); ok {
			return ex.toGo(st, x.V, x.T)
		}
		return nil, false
	}
	return nil, false
}

func (ex *Exec) variadicArgs(st *State, v Value) ([]interface{}, bool) {
	sl := v.(Slice)
	out := make([]interface{}, sl.Len)
	if sl.Len == 0 {
		return out, true
	}
	arr := st.Heap.get(sl.Arr).V.(Array)
	for i := 0; i < sl.Len; i++ {
		g, ok := ex.toGo(st, arr[sl.Off+i], nil)
		if !ok {
			return nil, false
		}
		out[i] = g
	}
	return out, true
}

func (ex *Exec) strSlice(st *State, parts []string) Value {
	arr := make(Array, len(parts))
	for i, p := range parts {
		arr[i] = ex.strConst(p)
	}
	id := st.alloc(&Object{V: arr})
	return Slice{id, 0, len(parts), len(parts)}
}

func registerNative(ex *Exec) {
	I := ex.Intr
	C := ex.C
	I["fmt.Sprintf"] = func(ex *Exec, st *State, args []Value, call ssa.CallInstruction) (Value, bool) {
		f, ok1 := args[0].(Str).Concrete()
		va, ok2 := ex.variadicArgs(st, args[1])
		if ok1 && ok2 {
			return ex.strConst(fmt.Sprintf(f, va...)), true
		}
		if ok1 {
			if r, ok := ex.symSprintf(st, f, args[1].(Slice)); ok {
				return r, true
			}
		}
		ex.OverApprox["fmt.Sprintf(opaque)"]++
		return ex.strConst("<formatted>"), true
	}
	I["fmt.Sprint"] = func(ex *Exec, st *State, args []Value, call ssa.CallInstruction) (Value, bool) {
		va, ok := ex.variadicArgs(st, args[0])
		if ok {
			return ex.strConst(fmt.Sprint(va...)), true
		}
		if sl := args[0].(Slice); sl.Len == 1 {
			if i, ok := st.Heap.get(sl.Arr).V.(Array)[sl.Off].(Iface); ok {
				if sv, ok := i.V.(Str); ok {
					return sv, true
				}
			}
		}
		ex.OverApprox["fmt.Sprint(opaque)"]++
		return ex.strConst("<formatted>"), true
	}
	I["strings.Split"] = func(ex *Exec, st *State, args []Value, call ssa.CallInstruction) (Value, bool) {
		s, ok1 := args[0].(Str).Concrete()
		sep, ok2 := args[1].(Str).Concrete()
		if ok1 && ok2 {
			return ex.strSlice(st, strings.Split(s, sep)), true
		}
		if !ok2 || len(sep) != 1 {
			ex.unsupported(st, "strings.Split(symbolic separator)")
		}
		// split the path on which bytes equal the separator
		src := args[0].(Str)
		type item struct {
			st    *State
			parts [][]*smt.Term
		}
		work := []item{{st.fork(), [][]*smt.Term{nil}}}
		for _, b := range src.B {
			var next []item
			for _, it := range work {
				tst, fst := ex.branch(it.st, C.Eq(b, C.BVConst(uint64(sep[0]), 8)), nil)
				if tst != nil {
					p := append(append([][]*smt.Term(nil), it.parts...), nil)
					next = append(next, item{tst, p})
				}
				if fst != nil {
					p := append([][]*smt.Term(nil), it.parts...)
					last := append(append([]*smt.Term(nil), p[len(p)-1]...), b)
					p[len(p)-1] = last
					next = append(next, item{fst, p})
				}
			}
			work = next
		}
		for _, it := range work {
			arr := make(Array, len(it.parts))
			for i, p := range it.parts {
				arr[i] = Str{p}
			}
			id := it.st.alloc(&Object{V: arr})
			f := it.st.frame()
			ex.set(f, call.(*ssa.Call), Slice{id, 0, len(arr), len(arr)})
			f.IP++
			ex.push(it.st)
		}
		ex.killed = true
		return nil, false
	}
	I["strings.Join"] = func(ex *Exec, st *State, args []Value, call ssa.CallInstruction) (Value, bool) {
		sl := args[0].(Slice)
		sep := args[1].(Str)
		var out []*smt.Term
		for i := 0; i < sl.Len; i++ {
			if i > 0 {
				out = append(out, sep.B...)
			}
			out = append(out, st.Heap.get(sl.Arr).V.(Array)[sl.Off+i].(Str).B...)
		}
		return Str{out}, true
	}
	for name, op := range map[string]smt.Op{"math.Floor": smt.OFFloor, "math.Trunc": smt.OFTrunc, "math.Ceil": smt.OFCeil,
		"math.Abs": smt.OFAbs, "math.Sqrt": smt.OFSqrt, "math.IsNaN": smt.OFIsNaN} {
		op := op
		I[name] = func(ex *Exec, st *State, args []Value, call ssa.CallInstruction) (Value, bool) {
			return C.FPUn(op, args[0].(*smt.Term)), true
		}
	}
	I["math.IsInf"] = func(ex *Exec, st *State, args []Value, call ssa.CallInstruction) (Value, bool) {
		x := args[0].(*smt.Term)
		sign := args[1].(*smt.Term)
		inf := C.FPUn(smt.OFIsInf, x)
		pos := C.FPCmp(smt.OFLt, C.FPConst(0), x)
		zero := C.BVConst(0, sign.Sort.W)
		return C.And(inf, C.Or(C.Eq(sign, zero), C.Ite(C.BVCmp(smt.OSlt, zero, sign), pos, C.Not(pos)))), true
	}
	I["math.Inf"] = func(ex *Exec, st *State, args []Value, call ssa.CallInstruction) (Value, bool) {
		sign := args[0].(*smt.Term)
		return C.Ite(C.BVCmp(smt.OSle, C.BVConst(0, sign.Sort.W), sign), C.FPConst(math.Inf(1)), C.FPConst(math.Inf(-1))), true
	}
	I["math.NaN"] = func(ex *Exec, st *State, args []Value, call ssa.CallInstruction) (Value, bool) {
		return C.FPConst(math.NaN()), true
	}
}

// symSprintf formats with %v/%s verbs where arguments may be symbolic strings.
func (ex *Exec) symSprintf(st *State, f string, va Slice) (Value, bool) {
	var out []*smt.Term
	argi := 0
	var arr Array
	if va.Len > 0 {
		arr = st.Heap.get(va.Arr).V.(Array)
	}
	for i := 0; i < len(f); i++ {
		if f[i] != '%' {
			out = append(out, ex.C.BVConst(uint64(f[i]), 8))
			continue
		}
		i++
		if i >= len(f) || (f[i] != 'v' && f[i] != 's') || argi >= va.Len {
			return nil, false
		}
		a := arr[va.Off+argi]
		argi++
		if ifc, ok := a.(Iface); ok {
			a = ifc.V
		}
		switch x := a.(type) {
		case Str:
			out = append(out, x.B...)
		default:
			g, ok := ex.toGo(st, a, nil)
			if !ok {
				return nil, false
			}
			out = append(out, ex.strConst(fmt.Sprint(g)).B...)
		}
	}
	return Str{out}, true
}

func registerNative2(ex *Exec) {
	I := ex.Intr
	C := ex.C
	errVal := func(st *State, err error) Value {
		if err == nil {
			return Iface{}
		}
		return ex.nativeError(st, err.Error())
	}
	cs := func(st *State, v Value, what string) string {
		s, ok := v.(Str).Concrete()
		if !ok {
			ex.unsupported(st, what+"(symbolic)")
		}
		return s
	}
	I["strconv.ParseInt"] = func(ex *Exec, st *State, args []Value, call ssa.CallInstruction) (Value, bool) {
		v, err := strconv.ParseInt(cs(st, args[0], "ParseInt"), int(args[1].(*smt.Term).Val), int(args[2].(*smt.Term).Val))
		return Tuple{C.BVConst(uint64(v), 64), errVal(st, err)}, true
	}
	I["strconv.Atoi"] = func(ex *Exec, st *State, args []Value, call ssa.CallInstruction) (Value, bool) {
		v, err := strconv.Atoi(cs(st, args[0], "Atoi"))
		return Tuple{C.BVConst(uint64(int64(v)), 64), errVal(st, err)}, true
	}
	I["strconv.ParseBool"] = func(ex *Exec, st *State, args []Value, call ssa.CallInstruction) (Value, bool) {
		v, err := strconv.ParseBool(cs(st, args[0], "ParseBool"))
		return Tuple{C.BoolConst(v), errVal(st, err)}, true
	}
	I["fmt.Errorf"] = func(ex *Exec, st *State, args []Value, call ssa.CallInstruction) (Value, bool) {
		f, ok1 := args[0].(Str).Concrete()
		va, ok2 := ex.variadicArgs(st, args[1])
		if ok1 && ok2 {
			return ex.nativeError(st, fmt.Sprintf(f, va...)), true
		}
		ex.OverApprox["fmt.Errorf(opaque)"]++
		return ex.nativeError(st, "<formatted error>"), true
	}
	// cron: no goroutine
	I["github.com/krotik/common/timeutil.NewCron"] = func(ex *Exec, st *State, args []Value, call ssa.CallInstruction) (Value, bool) {
		t := ex.Prog.ImportedPackage("github.com/krotik/common/timeutil").Type("Cron").Type()
		id := st.alloc(&Object{V: ex.zero(t)})
		return Ptr{Obj: id}, true
	}
	I["(*github.com/krotik/common/timeutil.Cron).Start"] = func(ex *Exec, st *State, args []Value, call ssa.CallInstruction) (Value, bool) {
		return nil, true
	}
	I["fmt.Fprintf"] = func(ex *Exec, st *State, args []Value, call ssa.CallInstruction) (Value, bool) {
		return Tuple{C.BVConst(0, 64), Iface{}}, true
	}
	I["fmt.Fprintln"] = I["fmt.Fprintf"]
	I["time.Now"] = func(ex *Exec, st *State, args []Value, call ssa.CallInstruction) (Value, bool) {
		t := ex.Prog.ImportedPackage("time").Type("Time").Type()
		return ex.zero(t), true
	}
	I["(time.Time).UnixNano"] = func(ex *Exec, st *State, args []Value, call ssa.CallInstruction) (Value, bool) {
		return C.BVConst(0, 64), true
	}
}

func registerNative3(ex *Exec) {
	I := ex.Intr
	I["strconv.Quote"] = func(ex *Exec, st *State, args []Value, call ssa.CallInstruction) (Value, bool) {
		s, ok := args[0].(Str).Concrete()
		if !ok {
			ex.unsupported(st, "strconv.Quote(symbolic)")
		}
		return ex.strConst(strconv.Quote(s)), true
	}
	// (*template.Template).Execute(w io.Writer, data interface{}) with w = *bytes.Buffer and data = map[string]string
	I["(*text/template.Template).Execute"] = func(ex *Exec, st *State, args []Value, call ssa.CallInstruction) (Value, bool) {
		t := ex.load(st, args[0].(Ptr)).(Native).V.(*template.Template)
		data := map[string]string{}
		di := args[2].(Iface)
		md := ex.mapData(st, di.V.(MapRef))
		for i := range md.Keys {
			// template data must be concrete: values the path already pins are read off, others are
			// split over their feasible values (solver-driven)
			k := ex.concreteStr(st, md.Keys[i].(Str), 64)
			v := ex.concreteStr(st, md.Vals[i].(Str), 64)
			data[k] = v
		}
		var sb strings.Builder
		if err := t.Execute(&sb, data); err != nil {
			return ex.nativeError(st, err.Error()), true
		}
		// append to the interpreted bytes.Buffer through its own WriteString method
		w := args[1].(Iface)
		m := ex.Prog.LookupMethod(w.T, nil, "WriteString")
		if m == nil {
			ex.unsupported(st, "template.Execute writer without WriteString")
		}
		ex.pendingCall = &pendingCall{Fn: m, Args: []Value{w.V, ex.strConst(sb.String())}}
		return Iface{}, true
	}
}
