package sym

import (
	"gosym/smt"

	"golang.org/x/tools/go/ssa"
)

// byte-level kernels of internal/bytealg (assembly in the real runtime): exact term encodings over
// strings / byte slices of concrete length.

func (ex *Exec) bytesOf(st *State, v Value) []*smt.Term {
	switch x := v.(type) {
	case Str:
		return x.B
	case Slice:
		out := make([]*smt.Term, x.Len)
		if x.Len > 0 {
			arr := st.Heap.get(x.Arr).V.(Array)
			for i := 0; i < x.Len; i++ {
				out[i] = arr[x.Off+i].(*smt.Term)
			}
		}
		return out
	}
	panic("bytesOf")
}

func registerBytealg(ex *Exec) {
	I := ex.Intr
	C := ex.C
	count := func(ex *Exec, st *State, args []Value, call ssa.CallInstruction) (Value, bool) {
		b := ex.bytesOf(st, args[0])
		c := args[1].(*smt.Term)
		n := C.BVConst(0, 64)
		for _, x := range b {
			n = C.BVBin(smt.OAdd, n, C.Ite(C.Eq(x, c), C.BVConst(1, 64), C.BVConst(0, 64)))
		}
		return n, true
	}
	I["internal/bytealg.CountString"] = count
	I["internal/bytealg.Count"] = count
	indexByte := func(ex *Exec, st *State, args []Value, call ssa.CallInstruction) (Value, bool) {
		b := ex.bytesOf(st, args[0])
		c := args[1].(*smt.Term)
		res := C.BVConst(^uint64(0), 64)
		for i := len(b) - 1; i >= 0; i-- {
			res = C.Ite(C.Eq(b[i], c), C.BVConst(uint64(i), 64), res)
		}
		return res, true
	}
	I["internal/bytealg.IndexByteString"] = indexByte
	I["internal/bytealg.IndexByte"] = indexByte
	lastIndexByte := func(ex *Exec, st *State, args []Value, call ssa.CallInstruction) (Value, bool) {
		b := ex.bytesOf(st, args[0])
		c := args[1].(*smt.Term)
		res := C.BVConst(^uint64(0), 64)
		for i := 0; i < len(b); i++ {
			res = C.Ite(C.Eq(b[i], c), C.BVConst(uint64(i), 64), res)
		}
		return res, true
	}
	I["internal/bytealg.LastIndexByteString"] = lastIndexByte
	I["internal/bytealg.LastIndexByte"] = lastIndexByte
	index := func(ex *Exec, st *State, args []Value, call ssa.CallInstruction) (Value, bool) {
		s, sub := ex.bytesOf(st, args[0]), ex.bytesOf(st, args[1])
		n, m := len(s), len(sub)
		res := C.BVConst(^uint64(0), 64)
		for i := n - m; i >= 0; i-- {
			res = C.Ite(ex.strEq(Str{s[i : i+m]}, Str{sub}), C.BVConst(uint64(i), 64), res)
		}
		return res, true
	}
	I["internal/bytealg.IndexString"] = index
	I["internal/bytealg.Index"] = index
	I["strings.Index"] = index
	I["internal/bytealg.Equal"] = func(ex *Exec, st *State, args []Value, call ssa.CallInstruction) (Value, bool) {
		return ex.strEq(Str{ex.bytesOf(st, args[0])}, Str{ex.bytesOf(st, args[1])}), true
	}
	I["internal/bytealg.MakeNoZero"] = func(ex *Exec, st *State, args []Value, call ssa.CallInstruction) (Value, bool) {
		n := int(ex.concreteInt(st, args[0]))
		arr := make(Array, n)
		for i := range arr {
			arr[i] = C.BVConst(0, 8)
		}
		id := st.alloc(&Object{V: arr})
		return Slice{id, 0, n, n}, true
	}
	I["internal/bytealg.Compare"] = func(ex *Exec, st *State, args []Value, call ssa.CallInstruction) (Value, bool) {
		a, b := Str{ex.bytesOf(st, args[0])}, Str{ex.bytesOf(st, args[1])}
		lt := ex.strLess(a, b)
		eq := ex.strEq(a, b)
		return C.Ite(eq, C.BVConst(0, 64), C.Ite(lt, C.BVConst(^uint64(0), 64), C.BVConst(1, 64))), true
	}
	I["internal/abi.NoEscape"] = func(ex *Exec, st *State, args []Value, call ssa.CallInstruction) (Value, bool) {
		return args[0], true
	}
	I["(*strings.Builder).copyCheck"] = func(ex *Exec, st *State, args []Value, call ssa.CallInstruction) (Value, bool) {
		return nil, true
	}
	I["(*strings.Builder).String"] = func(ex *Exec, st *State, args []Value, call ssa.CallInstruction) (Value, bool) {
		p := args[0].(Ptr)
		if p.Obj == 0 {
			ex.goPanic(st, "nil pointer dereference")
		}
		buf := ex.load(st, p.field(1)).(Slice)
		return Str{ex.bytesOf(st, buf)}, true
	}
	I["strings.HasPrefix"] = func(ex *Exec, st *State, args []Value, call ssa.CallInstruction) (Value, bool) {
		s, p := args[0].(Str), args[1].(Str)
		if len(p.B) > len(s.B) {
			return C.False, true
		}
		return ex.strEq(Str{s.B[:len(p.B)]}, p), true
	}
	I["strings.HasSuffix"] = func(ex *Exec, st *State, args []Value, call ssa.CallInstruction) (Value, bool) {
		s, p := args[0].(Str), args[1].(Str)
		if len(p.B) > len(s.B) {
			return C.False, true
		}
		return ex.strEq(Str{s.B[len(s.B)-len(p.B):]}, p), true
	}
}
