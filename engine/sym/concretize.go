package sym

import (
	"regexp"
	"strconv"

	"gosym/smt"

	"golang.org/x/tools/go/ssa"
)

// pinned returns the concrete value of t if the path condition implies one (t const, or the solver
// shows that only the model's value is possible).
func (ex *Exec) pinned(st *State, t *smt.Term) (uint64, bool) {
	if t.IsConst() {
		return t.Val, true
	}
	var v uint64
	have := false
	if st.Model != nil && !ex.NoModelCache {
		if x, ok := smt.Eval(t, st.Model, map[int]uint64{}); ok {
			v, have = x, true
		}
	}
	if !have {
		r, m := ex.checkWithModel(st, ex.C.True)
		if r != smt.Sat {
			return 0, false
		}
		st.Model = m
		x, ok := smt.Eval(t, m, map[int]uint64{})
		if !ok {
			return 0, false
		}
		v = x
	}
	var c *smt.Term
	if t.Sort.K == smt.KBool {
		c = t
		if v == 1 {
			c = ex.C.Not(t)
		}
	} else {
		c = ex.C.Not(ex.C.Eq(t, ex.C.BVConst(v, t.Sort.W)))
	}
	r := ex.S.Check(st.PC, c)
	if r == smt.Sat {
		ex.S.Done()
	}
	return v, r == smt.Unsat
}

// splitPin makes the BV term t concrete on the current path by solver-driven enumeration: it picks the
// model's value v, pushes a fork with t != v that re-executes the current instruction, and constrains
// this path to t == v.  More than max distinct values on one instruction => unsupported.
func (ex *Exec) splitPin(st *State, t *smt.Term, max int) uint64 {
	if v, ok := ex.pinned(st, t); ok {
		return v
	}
	fr := st.frame()
	fr.PinCount++
	if fr.PinCount > max {
		ex.unsupported(st, "too many values to concretise at one instruction")
	}
	r, m := ex.checkWithModel(st, ex.C.True)
	if r != smt.Sat {
		panic(pathEnd{"infeasible"})
	}
	v, ok := smt.Eval(t, m, map[int]uint64{})
	if !ok {
		ex.unsupported(st, "cannot evaluate term in model")
	}
	eq := ex.C.Eq(t, ex.C.BVConst(v, t.Sort.W))
	o := st.fork()
	o.PC = append(o.PC, ex.C.Not(eq))
	o.Model = nil
	ex.push(o)
	ex.Forks++
	st.PC = append(st.PC, eq)
	st.Model = m
	return v
}

// concreteStr returns s as a Go string, splitting the path over the feasible byte values if needed.
func (ex *Exec) concreteStr(st *State, s Str, max int) string {
	buf := make([]byte, len(s.B))
	for i, b := range s.B {
		buf[i] = byte(ex.splitPin(st, b, max))
	}
	return string(buf)
}

func registerConcretizing(ex *Exec) {
	I := ex.Intr
	C := ex.C
	errVal := func(ex *Exec, st *State, err error) Value {
		if err == nil {
			return Iface{}
		}
		return ex.nativeError(st, err.Error())
	}
	const maxVals = 40
	I["regexp.Compile"] = func(ex *Exec, st *State, args []Value, call ssa.CallInstruction) (Value, bool) {
		p := ex.concreteStr(st, args[0].(Str), maxVals)
		re, err := regexp.Compile(p)
		if err != nil {
			return Tuple{Ptr{}, errVal(ex, st, err)}, true
		}
		id := st.alloc(&Object{V: Native{re}})
		return Tuple{Ptr{Obj: id}, Iface{}}, true
	}
	I["regexp.MatchString"] = func(ex *Exec, st *State, args []Value, call ssa.CallInstruction) (Value, bool) {
		p := ex.concreteStr(st, args[0].(Str), maxVals)
		re, err := regexp.Compile(p)
		if err != nil {
			return Tuple{C.False, errVal(ex, st, err)}, true
		}
		s := args[1].(Str)
		if cs, ok := s.Concrete(); ok {
			return Tuple{C.BoolConst(re.MatchString(cs)), Iface{}}, true
		}
		return Tuple{ex.regexMatch(st, re.String(), s), Iface{}}, true
	}
	I["(*regexp.Regexp).String"] = func(ex *Exec, st *State, args []Value, call ssa.CallInstruction) (Value, bool) {
		re := ex.load(st, args[0].(Ptr)).(Native).V.(*regexp.Regexp)
		return ex.strConst(re.String()), true
	}
	I["strconv.ParseFloat"] = func(ex *Exec, st *State, args []Value, call ssa.CallInstruction) (Value, bool) {
		cs := ex.concreteStr(st, args[0].(Str), maxVals)
		f, err := strconv.ParseFloat(cs, int(args[1].(*smt.Term).Val))
		return Tuple{C.FPConst(f), errVal(ex, st, err)}, true
	}
	I["strconv.Unquote"] = func(ex *Exec, st *State, args []Value, call ssa.CallInstruction) (Value, bool) {
		s := args[0].(Str)
		if _, ok := s.Concrete(); !ok && len(s.B) >= 2 && s.B[0].IsConst() && s.B[0].Val == '"' &&
			s.B[len(s.B)-1].IsConst() && s.B[len(s.B)-1].Val == '"' {
			// double-quoted text without backslash, quote, newline or non-ASCII byte is returned as is
			inner := s.B[1 : len(s.B)-1]
			plain := C.True
			for _, b := range inner {
				plain = C.And(plain, C.And(C.And(C.Not(C.Eq(b, C.BVConst('\\', 8))), C.Not(C.Eq(b, C.BVConst('"', 8)))),
					C.And(C.Not(C.Eq(b, C.BVConst('\n', 8))), C.BVCmp(smt.OUlt, b, C.BVConst(0x80, 8)))))
			}
			tst, fst := ex.branch(st, plain, nil)
			if tst != nil {
				if fst != nil {
					ex.push(fst) // re-executes with a special byte present
				}
				return Tuple{Str{inner}, Iface{}}, true
			}
		}
		cs := ex.concreteStr(st, s, 400)
		r, err := strconv.Unquote(cs)
		return Tuple{ex.strConst(r), errVal(ex, st, err)}, true
	}
	I["strconv.Quote"] = func(ex *Exec, st *State, args []Value, call ssa.CallInstruction) (Value, bool) {
		cs := ex.concreteStr(st, args[0].(Str), maxVals)
		return ex.strConst(strconv.Quote(cs)), true
	}
	I["strconv.ParseInt"] = func(ex *Exec, st *State, args []Value, call ssa.CallInstruction) (Value, bool) {
		cs := ex.concreteStr(st, args[0].(Str), maxVals)
		v, err := strconv.ParseInt(cs, int(args[1].(*smt.Term).Val), int(args[2].(*smt.Term).Val))
		return Tuple{C.BVConst(uint64(v), 64), errVal(ex, st, err)}, true
	}
	I["strconv.Atoi"] = func(ex *Exec, st *State, args []Value, call ssa.CallInstruction) (Value, bool) {
		s := args[0].(Str)
		if r, ok := ex.symAtoi(st, s); ok {
			return r, true
		}
		cs := ex.concreteStr(st, s, maxVals)
		v, err := strconv.Atoi(cs)
		return Tuple{C.BVConst(uint64(int64(v)), 64), errVal(ex, st, err)}, true
	}
	appendNum := func(signed bool) Intrinsic {
		return func(ex *Exec, st *State, args []Value, call ssa.CallInstruction) (Value, bool) {
			t := args[1].(*smt.Term)
			base := int(ex.concreteInt(st, args[2]))
			v := ex.splitPin(st, t, maxVals)
			var txt string
			if signed {
				txt = strconv.FormatInt(int64(v), base)
			} else {
				txt = strconv.FormatUint(v, base)
			}
			dst := args[0].(Slice)
			add := make([]Value, len(txt))
			for i := range txt {
				add[i] = C.BVConst(uint64(txt[i]), 8)
			}
			// append in place when capacity allows (this is what makes a shared scratch buffer observable)
			if dst.Arr != 0 && dst.Len+len(add) <= dst.Cap {
				ex.globalAccess(st, dst.Arr, dst.Off+dst.Len, true)
				arr := append(Array(nil), st.Heap.get(dst.Arr).V.(Array)...)
				copy(arr[dst.Off+dst.Len:], add)
				st.Heap.put(dst.Arr, &Object{V: arr})
				return Slice{dst.Arr, dst.Off, dst.Len + len(add), dst.Cap}, true
			}
			arr := make(Array, dst.Len+len(add))
			if dst.Len > 0 {
				copy(arr, st.Heap.get(dst.Arr).V.(Array)[dst.Off:dst.Off+dst.Len])
			}
			copy(arr[dst.Len:], add)
			id := st.alloc(&Object{V: arr})
			return Slice{id, 0, len(arr), len(arr)}, true
		}
	}
	I["strconv.AppendUint"] = appendNum(false)
	I["strconv.AppendInt"] = appendNum(true)
	I["strconv.FormatInt"] = func(ex *Exec, st *State, args []Value, call ssa.CallInstruction) (Value, bool) {
		v := ex.splitPin(st, args[0].(*smt.Term), maxVals)
		return ex.strConst(strconv.FormatInt(int64(v), int(ex.concreteInt(st, args[1])))), true
	}
	I["strconv.FormatUint"] = func(ex *Exec, st *State, args []Value, call ssa.CallInstruction) (Value, bool) {
		v := ex.splitPin(st, args[0].(*smt.Term), maxVals)
		return ex.strConst(strconv.FormatUint(v, int(ex.concreteInt(st, args[1])))), true
	}
	I["strconv.ParseBool"] = func(ex *Exec, st *State, args []Value, call ssa.CallInstruction) (Value, bool) {
		cs := ex.concreteStr(st, args[0].(Str), maxVals)
		v, err := strconv.ParseBool(cs)
		return Tuple{C.BoolConst(v), errVal(ex, st, err)}, true
	}
	I["strconv.Itoa"] = func(ex *Exec, st *State, args []Value, call ssa.CallInstruction) (Value, bool) {
		t := args[0].(*smt.Term)
		if t.IsConst() {
			return ex.strConst(strconv.Itoa(int(int64(t.Val)))), true
		}
		s, stt := ex.fmtSmallInt(st, t, nil)
		if stt != fmtOK {
			v := ex.splitPin(st, t, maxVals)
			return ex.strConst(strconv.Itoa(int(int64(v)))), true
		}
		return s, true
	}
}

// symAtoi handles the digit strings produced by fmtIntDigits ("d", "dd", "-d", "-dd" with symbolic
// digit bytes that the path constrains to '0'..'9') without enumerating values.
func (ex *Exec) symAtoi(st *State, s Str) (Value, bool) {
	C := ex.C
	if _, ok := s.Concrete(); ok {
		return nil, false
	}
	b := s.B
	neg := false
	if len(b) > 0 && b[0].IsConst() && b[0].Val == '-' {
		neg = true
		b = b[1:]
	}
	if len(b) == 0 || len(b) > 2 {
		return nil, false
	}
	val := C.BVConst(0, 64)
	for _, d := range b {
		isDigit := C.And(C.BVCmp(smt.OUle, C.BVConst('0', 8), d), C.BVCmp(smt.OUle, d, C.BVConst('9', 8)))
		if r := ex.S.Check(st.PC, C.Not(isDigit)); r != smt.Unsat {
			if r == smt.Sat {
				ex.S.Done()
			}
			return nil, false
		}
		dv := C.Zext(C.BVBin(smt.OSub, d, C.BVConst('0', 8)), 64)
		val = C.BVBin(smt.OAdd, C.BVBin(smt.OMul, val, C.BVConst(10, 64)), dv)
	}
	if neg {
		val = C.BVUn(smt.ONeg, val)
	}
	return Tuple{val, Iface{}}, true
}
