// Command gosym: bounded symbolic execution of one harness function over go/ssa of /repo's
// current working tree (plus overlay harness files), deciding every branch, assertion, implicit
// panic and unwinding obligation with an SMT solver.  Driven by a JSON job, answers with JSON.
package main

import (
	"encoding/json"
	"flag"
	"fmt"
	"os"
	"runtime/pprof"
	"sort"
	"strings"
	"time"

	"gosym/sym"
)

type Job struct {
	Repo       string            `json:"repo"`
	Pkg        string            `json:"pkg"`
	Fn         string            `json:"fn"`
	Overlay    map[string]string `json:"overlay"` // virtual path -> real file
	Unwind     int               `json:"unwind"`
	MaxSteps   int               `json:"max_steps"`
	Workers    int               `json:"workers"`
	TwoPass    bool              `json:"two_pass"`
	TimeoutMs  int               `json:"timeout_ms"`
	Params     map[string]int64  `json:"params"`
	Known      []string          `json:"known"`
	Replay     bool              `json:"replay"`
	ReplayDir  string            `json:"replay_dir"`
	NativeZZ   string            `json:"native_zz"`
	ReplayMax  int               `json:"replay_max"`
	ReplayTO   int               `json:"replay_timeout_s"`
	MaxPaths   int               `json:"max_paths"`
	WallS      int               `json:"wall_s"`
	Verbose    bool              `json:"verbose"`
	MaxModels  int               `json:"max_models"`
	Pass1Pre   int               `json:"pass1_preempt"`
	ExtraPkgs  []string          `json:"extra_pkgs"`
	SampleMax  int               `json:"sample_max"`
	ReplayOnly string            `json:"replay_only"`
	InterpExtra []string         `json:"interp_extra"`
}

type Group struct {
	Kind     string              `json:"kind"`
	Msg      string              `json:"msg"`
	Where    string              `json:"where"`
	Count    int                 `json:"count"`
	Models   []map[string]uint64 `json:"models"`
	Traces   [][]string          `json:"traces,omitempty"`
	Replay   string              `json:"replay"` // "", REPRODUCED..., NOT-REPRODUCED...
	ReplayAt string              `json:"replay_path"`
	Attempts []string            `json:"replay_attempts,omitempty"`
}

type Result struct {
	Status      string            `json:"status"` // ok | load-error | no-function
	Error       string            `json:"error,omitempty"`
	Fn          string            `json:"fn"`
	Pkg         string            `json:"pkg"`
	LoadS       float64           `json:"load_s"`
	WallS       float64           `json:"wall_s"`
	SolverS     float64           `json:"solver_s"`
	Paths       int               `json:"paths"`
	Forks       int               `json:"forks"`
	Instrs      int64             `json:"instrs"`
	Obligations int               `json:"obligations"`
	Trivial     int               `json:"trivial_obligations"`
	NontrivPaths int              `json:"nontrivial_paths"`
	Queries     map[string]int    `json:"queries"`
	ModelHits   int               `json:"model_cache_hits"`
	Restarts    int               `json:"solver_restarts"`
	SolverErrs  int               `json:"solver_errors"`
	Reached     map[string]int    `json:"reached"`
	Digests     map[string]string `json:"digests,omitempty"`
	OverApprox  map[string]int    `json:"overapprox"`
	Groups      []Group           `json:"groups"`
	KnownHits   map[string]int    `json:"known_hits"`
	KnownModels map[string]map[string]uint64 `json:"known_models"`
	Samples     []map[string]uint64 `json:"samples"`
	Functions   map[string]int64  `json:"functions"`
	Intrinsics  map[string]int64  `json:"intrinsics"`
	RacySites   []string          `json:"racy_sites,omitempty"`
	InitSkipped int               `json:"init_skipped"`
	Truncated   bool              `json:"truncated"`
	Pass1Paths  int               `json:"pass1_paths,omitempty"`
	Params      map[string]int64  `json:"params"`
	Unwind      int               `json:"unwind"`
	PathEnds    map[string]int    `json:"path_ends"`
}

func main() {
	jobPath := flag.String("job", "", "job json")
	outPath := flag.String("out", "", "result json (default stdout)")
	flag.Parse()
	var job Job
	b, err := os.ReadFile(*jobPath)
	if err != nil {
		fmt.Fprintln(os.Stderr, err)
		os.Exit(2)
	}
	if err := json.Unmarshal(b, &job); err != nil {
		fmt.Fprintln(os.Stderr, err)
		os.Exit(2)
	}
	if job.Repo == "" {
		job.Repo = "/repo"
	}
	if job.Workers <= 0 {
		job.Workers = 16
	}
	if job.Unwind <= 0 {
		job.Unwind = 12
	}
	if job.TimeoutMs <= 0 {
		job.TimeoutMs = 10000
	}
	if job.ReplayMax <= 0 {
		job.ReplayMax = 3
	}
	if job.ReplayTO <= 0 {
		job.ReplayTO = 20
	}
	if job.MaxModels <= 0 {
		job.MaxModels = 5
	}
	if job.SampleMax <= 0 {
		job.SampleMax = 6
	}
	if pf := os.Getenv("GOSYM_CPUPROFILE"); pf != "" {
		f, err := os.Create(pf)
		if err == nil {
			pprof.StartCPUProfile(f)
			defer pprof.StopCPUProfile()
		}
	}
	res := run(&job)
	out, _ := json.MarshalIndent(res, "", " ")
	if *outPath == "" {
		os.Stdout.Write(out)
	} else {
		os.WriteFile(*outPath, out, 0644)
	}
}

func run(job *Job) *Result {
	res := &Result{Fn: job.Fn, Pkg: job.Pkg, Params: job.Params, Unwind: job.Unwind}
	overlay := map[string][]byte{}
	for v, r := range job.Overlay {
		b, err := os.ReadFile(r)
		if err != nil {
			res.Status, res.Error = "load-error", err.Error()
			return res
		}
		overlay[v] = b
	}
	sym.SolverTimeoutMs = job.TimeoutMs
	sym.ExtraInterp = job.InterpExtra
	t0 := time.Now()
	pats := append([]string{job.Pkg}, job.ExtraPkgs...)
	ex, spkgs, err := sym.Load(job.Repo, overlay, pats...)
	if err != nil {
		res.Status, res.Error = "load-error", err.Error()
		return res
	}
	res.LoadS = time.Since(t0).Seconds()
	res.InitSkipped = len(ex.InitSkipped)
	ex.Unwind = job.Unwind
	if job.MaxSteps > 0 {
		ex.MaxSteps = job.MaxSteps
	}
	ex.Verbose = job.Verbose
	ex.Params = job.Params
	ex.MaxPaths = job.MaxPaths
	ex.SampleMax = job.SampleMax
	if job.WallS > 0 {
		ex.Deadline = time.Now().Add(time.Duration(job.WallS) * time.Second)
	}
	ex.KnownActive = map[string]bool{}
	for _, k := range job.Known {
		ex.KnownActive[k] = true
	}
	var h = spkgs[0].Func(job.Fn)
	if h == nil {
		res.Status, res.Error = "no-function", job.Fn
		return res
	}
	var pass1Races []sym.Finding
	pass1Known := map[string]int{}
	pass1KnownModels := map[string]map[string]uint64{}
	ex.TwoPass = job.TwoPass
	ex.RepoPrefix = job.Repo + "/"
	ex.Pass1Preempt = job.Pass1Pre
	if job.TwoPass {
		ws := ex.RunParallel(h, job.Workers)
		for _, w := range ws {
			res.Pass1Paths += w.Paths
			for _, f := range w.Findings {
				if f.Kind == "race" {
					pass1Races = append(pass1Races, f)
				}
			}
			for k, v := range w.KnownHits {
				pass1Known[k] += v
				if _, ok := pass1KnownModels[k]; !ok {
					pass1KnownModels[k] = w.KnownModels[k]
				}
			}
			w.S.Close()
		}
		ex.UseRacySites = true
		ex.ResetShared()
	}
	t1 := time.Now()
	ws := ex.RunParallel(h, job.Workers)
	res.Queries = map[string]int{"sat": 0, "unsat": 0, "unknown": 0}
	res.Reached = map[string]int{}
	res.OverApprox = map[string]int{}
	res.KnownHits = map[string]int{}
	res.KnownModels = map[string]map[string]uint64{}
	res.Functions = map[string]int64{}
	res.Intrinsics = map[string]int64{}
	res.PathEnds = map[string]int{}
	var findings []sym.Finding
	findings = append(findings, pass1Races...)
	for k, v := range pass1Known {
		res.KnownHits[k] += v
		res.KnownModels[k] = pass1KnownModels[k]
	}
	var st time.Duration
	for _, w := range ws {
		res.Paths += w.Paths
		res.Forks += w.Forks
		res.Instrs += w.Instrs
		res.Obligations += w.Obligations
		res.Trivial += w.Trivial
		res.NontrivPaths += w.NontrivPaths
		res.ModelHits += w.ModelHits
		findings = append(findings, w.Findings...)
		for k, v := range w.Reached {
			res.Reached[k] += v
		}
		for k, v := range w.Digests {
			if res.Digests == nil {
				res.Digests = map[string]string{}
			}
			res.Digests[k] = v
		}
		for k, v := range w.OverApprox {
			res.OverApprox[k] += v
		}
		for k, v := range w.KnownHits {
			res.KnownHits[k] += v
		}
		for k, v := range w.KnownModels {
			if _, ok := res.KnownModels[k]; !ok {
				res.KnownModels[k] = v
			}
		}
		for k, v := range w.IntrHit {
			res.Intrinsics[k] += v
		}
		for k, v := range w.PathEnds {
			res.PathEnds[k] += v
		}
		for _, s := range w.Samples {
			if len(res.Samples) < job.SampleMax {
				res.Samples = append(res.Samples, s)
			}
		}
		res.Queries["sat"] += w.S.Queries[0]
		res.Queries["unsat"] += w.S.Queries[1]
		res.Queries["unknown"] += w.S.Queries[2]
		st += w.S.Time
		res.Restarts += w.S.Restarts
		res.SolverErrs += w.S.Errors
		w.S.Close()
	}
	for fn, n := range ex.FuncCalls() {
		res.Functions[fn] = n
	}
	sym.DumpQSites()
	res.Truncated = ex.WasTruncated()
	res.SolverS = st.Seconds()
	res.WallS = time.Since(t1).Seconds()
	for s := range ex.RacySites {
		res.RacySites = append(res.RacySites, s)
	}
	sort.Strings(res.RacySites)
	// group findings
	idx := map[string]int{}
	byGroup := map[string][]sym.Finding{}
	for _, f := range findings {
		k := f.Kind + "|" + f.Msg
		if f.Kind == "race" {
			k = f.Kind + "|" + f.Msg
		} else if f.Kind == "panic" || f.Kind == "unwind" || f.Kind == "budget" || f.Kind == "unsupported" || f.Kind == "engine-error" {
			k += "|" + f.Where
		}
		if _, ok := idx[k]; !ok {
			idx[k] = len(res.Groups)
			res.Groups = append(res.Groups, Group{Kind: f.Kind, Msg: f.Msg, Where: f.Where})
		}
		g := &res.Groups[idx[k]]
		g.Count++
		byGroup[k] = append(byGroup[k], f)
	}
	for k, i := range idx {
		g := &res.Groups[i]
		fs := byGroup[k]
		sort.SliceStable(fs, func(a, b int) bool {
			if npre(fs[a]) != npre(fs[b]) {
				return npre(fs[a]) < npre(fs[b])
			}
			return len(fs[a].Model) < len(fs[b].Model)
		})
		for j, f := range fs {
			if j >= job.MaxModels {
				break
			}
			g.Models = append(g.Models, f.Model)
			g.Traces = append(g.Traces, tailN(f.Trace, 40))
		}
		if job.Replay && replayable(g.Kind) {
			for j, f := range fs {
				if j >= job.ReplayMax {
					break
				}
				v, path := replay(job, f, fmt.Sprintf("%s-%d-%d", job.Fn, i, j))
				g.Attempts = append(g.Attempts, v)
				g.Replay, g.ReplayAt = v, path
				if strings.HasPrefix(v, "REPRODUCED") {
					break
				}
			}
		}
	}
	sort.Slice(res.Groups, func(a, b int) bool { return res.Groups[a].Kind+res.Groups[a].Msg < res.Groups[b].Kind+res.Groups[b].Msg })
	res.Status = "ok"
	return res
}

func replayable(kind string) bool {
	switch kind {
	case "assert", "panic", "unwind", "budget", "deadlock", "race":
		return true
	}
	return false
}

func tailN(s []string, n int) []string {
	if len(s) > n {
		return s[len(s)-n:]
	}
	return s
}

func npre(f sym.Finding) int {
	n := 0
	for _, e := range f.Events {
		if e.Kind == "preempt" {
			n++
		}
	}
	return n
}
