package main

import (
	"encoding/json"
	"fmt"
	"os"
	"os/exec"
	"path/filepath"
	"strings"
	"time"

	"gosym/sym"
)

// replay runs the harness natively with the finding's model; returns a verdict string and the replay file.
func replay(job *Job, f sym.Finding, name string) (string, string) {
	dir := filepath.Join(job.ReplayDir, name)
	os.RemoveAll(dir)
	os.MkdirAll(dir, 0755)
	cexPath := filepath.Join(dir, "cex.json")
	pauses, files := derivePauses(f.Events, job.Repo)
	b, _ := json.MarshalIndent(map[string]interface{}{"values": f.Model, "kind": f.Kind, "msg": f.Msg, "where": f.Where,
		"pauses": pauses, "events": f.Events, "params": job.Params, "pkg": job.Pkg, "fn": job.Fn, "trace": tailN(f.Trace, 60)}, "", " ")
	os.WriteFile(cexPath, b, 0644)
	rel := strings.TrimPrefix(job.Pkg, "github.com/krotik/ecal")
	pkgDir := job.Repo + rel
	short := filepath.Base(job.Pkg)
	testSrc := fmt.Sprintf("package %s\n\nimport \"testing\"\n\nfunc TestVerifReplay(t *testing.T) { %s() }\n", short, job.Fn)
	testPath := filepath.Join(dir, "zz_replay_test.go")
	os.WriteFile(testPath, []byte(testSrc), 0644)
	repl := map[string]string{filepath.Join(pkgDir, "zz_replay_test.go"): testPath}
	for v, r := range job.Overlay {
		if strings.HasSuffix(v, "/zzverif/zzverif.go") {
			r = job.NativeZZ
		}
		repl[v] = r
	}
	for _, file := range files {
		out := filepath.Join(dir, "instr_"+strings.ReplaceAll(strings.TrimPrefix(file, job.Repo+"/"), "/", "_"))
		real := file
		if r, ok := job.Overlay[file]; ok {
			real = r
		}
		if err := instrument(file, real, out, stmtSites(f.Events, file)); err != nil {
			fmt.Fprintln(os.Stderr, "instrument error:", err)
			continue
		}
		repl[file] = out
	}
	ov, _ := json.MarshalIndent(map[string]interface{}{"Replace": repl}, "", " ")
	ovPath := filepath.Join(dir, "overlay.json")
	os.WriteFile(ovPath, ov, 0644)
	to := job.ReplayTO
	raceFlag := ""
	if f.Kind == "race" {
		raceFlag = "-race "
		to += 60
	}
	script := fmt.Sprintf("#!/bin/sh\ncd %s && VERIF_CEX=%s GOFLAGS=-mod=mod GOPROXY=off GOSUMDB=off GOTOOLCHAIN=local timeout %d go test %s-vet=off -count=1 -timeout %ds -overlay %s -run '^TestVerifReplay$' %s\n",
		job.Repo, cexPath, to+120, raceFlag, to, ovPath, job.Pkg)
	os.WriteFile(filepath.Join(dir, "replay.sh"), []byte(script), 0755)
	cmd := exec.Command("/bin/sh", filepath.Join(dir, "replay.sh"))
	t0 := time.Now()
	out, _ := cmd.CombinedOutput()
	txt := string(out)
	os.WriteFile(filepath.Join(dir, "output.txt"), out, 0644)
	verdict := "NOT-REPRODUCED"
	switch {
	case f.Kind == "race":
		if strings.Contains(txt, "WARNING: DATA RACE") {
			verdict = "REPRODUCED(race detector)"
		}
	case strings.Contains(txt, "VERIF-ASSUME-VIOLATED"):
		verdict = "INVALID-MODEL(assume violated)"
	case strings.Contains(txt, "VERIF-ASSERT"):
		verdict = "REPRODUCED(assert)"
	case strings.Contains(txt, "panic: test timed out"):
		if f.Kind == "unwind" || f.Kind == "budget" || f.Kind == "deadlock" {
			verdict = "REPRODUCED(timeout)"
		} else {
			verdict = "NOT-REPRODUCED(timeout)"
		}
	case strings.Contains(txt, "panic:") || strings.Contains(txt, "fatal error:"):
		verdict = "REPRODUCED(panic)"
	case strings.Contains(txt, "[build failed]") || strings.Contains(txt, "[setup failed]"):
		verdict = "REPLAY-BUILD-FAILED"
	}
	line := ""
	for _, l := range strings.Split(txt, "\n") {
		if strings.Contains(l, "panic") || strings.Contains(l, "VERIF-") || strings.Contains(l, "fatal error") || strings.Contains(l, "DATA RACE") {
			line = strings.TrimSpace(l)
			break
		}
	}
	return fmt.Sprintf("%s in %.1fs [%s]", verdict, time.Since(t0).Seconds(), line), cexPath
}

type pause struct {
	Site         string `json:"site"`
	Arrival      int    `json:"arrival"`
	ReleaseSite  string `json:"release_site"`
	ReleaseCount int    `json:"release_count"`
	OnArrival    bool   `json:"on_arrival"` // release when the other goroutine arrives (it blocks there), not when it completes
}

// derivePauses reduces a schedule to its pre-emptions (see DESIGN section 4).  Sites outside the repository (module
// cache, std) cannot be instrumented: they are mapped to the innermost repository position of that goroutine
// (SchedEvent.Repo), which is instrumented at statement level; arrivals are then counted per statement execution.
func derivePauses(ev []sym.SchedEvent, repo string) ([]pause, []string) {
	inRepo := func(s string) bool { return strings.HasPrefix(s, repo+"/") }
	loc := func(e sym.SchedEvent) string {
		if !inRepo(e.Site) && e.Repo != "" {
			return e.Repo
		}
		return e.Site
	}
	// arrivals of location l by events [0,upto): consecutive events of one goroutine at the same mapped location
	// count once when the location is a mapped (statement level) one
	count := func(l string, upto int, mapped bool) int {
		n := 0
		last := map[int]string{}
		for _, x := range ev[:upto] {
			if x.Kind != "op" {
				continue
			}
			xl := loc(x)
			if xl == l && !(mapped && last[x.G] == l) {
				n++
			}
			last[x.G] = xl
		}
		return n
	}
	var ps []pause
	files := map[string]bool{}
	for i, e := range ev {
		if e.Kind != "preempt" {
			continue
		}
		l := loc(e)
		p := pause{Site: l, Arrival: count(l, i, l != e.Site) + 1}
		// events of other goroutines until the paused one runs again
		last := -1
		for j := i + 1; j < len(ev); j++ {
			if ev[j].G == e.G && ev[j].Kind == "op" {
				break
			}
			if ev[j].G != e.G && ev[j].Kind == "op" {
				last = j
			}
		}
		if last < 0 {
			continue
		}
		rl := loc(ev[last])
		p.ReleaseSite = rl
		p.ReleaseCount = count(rl, last+1, rl != ev[last].Site)
		if last+1 < len(ev) && ev[last+1].Kind == "blocked" && ev[last+1].G == ev[last].G {
			p.OnArrival = true
		}
		if rl != ev[last].Site {
			p.OnArrival = true // statement level: At fires before the statement, Done right after At
		}
		ps = append(ps, p)
		for _, s := range []string{p.Site, p.ReleaseSite} {
			if k := strings.Index(s, ".go:"); k > 0 {
				files[s[:k+3]] = true
			}
		}
	}
	// a Sleep after which other goroutines ran is a yield: natively the sleeper must not overtake them, so it waits
	// at its next operation until they have got as far as they did in the schedule
	for i, e := range ev {
		if e.Kind != "op" || e.What != "Sleep" {
			continue
		}
		next, last := -1, -1
		for j := i + 1; j < len(ev); j++ {
			if ev[j].G == e.G && ev[j].Kind == "op" {
				next = j
				break
			}
			if ev[j].G != e.G && ev[j].Kind == "op" {
				last = j
			}
		}
		if next < 0 || last < 0 {
			continue
		}
		l := loc(ev[next])
		p := pause{Site: l, Arrival: count(l, next, l != ev[next].Site) + 1}
		rl := loc(ev[last])
		p.ReleaseSite = rl
		p.ReleaseCount = count(rl, last+1, rl != ev[last].Site)
		if last+1 < len(ev) && ev[last+1].Kind == "blocked" && ev[last+1].G == ev[last].G {
			p.OnArrival = true
		}
		if rl != ev[last].Site {
			p.OnArrival = true
		}
		dup := false
		for _, q := range ps {
			if q.Site == p.Site && q.Arrival == p.Arrival {
				dup = true
			}
		}
		if dup {
			continue
		}
		ps = append(ps, p)
		for _, s := range []string{p.Site, p.ReleaseSite} {
			if k := strings.Index(s, ".go:"); k > 0 {
				files[s[:k+3]] = true
			}
		}
	}
	var fl []string
	for f := range files {
		if strings.HasPrefix(f, repo+"/") {
			fl = append(fl, f)
		}
	}
	return ps, fl
}

// stmtSites lists the non-sync (racy access) sites of a schedule that lie in file.
func stmtSites(ev []sym.SchedEvent, file string) []string {
	seen := map[string]bool{}
	var out []string
	for _, e := range ev {
		if strings.HasPrefix(e.Site, file+":") && (strings.HasPrefix(e.What, "read ") || strings.HasPrefix(e.What, "write ")) && !seen[e.Site] {
			seen[e.Site] = true
			out = append(out, e.Site)
		}
		if e.Repo != "" && strings.HasPrefix(e.Repo, file+":") && !seen[e.Repo] {
			seen[e.Repo] = true
			out = append(out, e.Repo)
		}
	}
	return out
}
