package main

import (
	"strings"
	"bytes"
	"fmt"
	"go/ast"
	"go/parser"
	"go/printer"
	"go/token"
	"os"

	"golang.org/x/tools/go/ast/astutil"
)

var syncSel = map[string]bool{"Lock": true, "Unlock": true, "RLock": true, "RUnlock": true, "Wait": true, "Signal": true, "Broadcast": true, "Add": true, "Done": true}

// instrument writes a copy of file with zzverif.At/Done around calls of sync-like methods.
// Site ids are positions in the ORIGINAL file so that they match the executor's call positions.
func instrument(file, real, out string, stmtSites []string) error {
	fset := token.NewFileSet()
	src, err := os.ReadFile(real)
	if err != nil {
		return err
	}
	f, err := parser.ParseFile(fset, file, src, parser.ParseComments)
	if err != nil {
		return err
	}
	// local name under which the file imports the zzverif package (added below if missing)
	zzName := ""
	for _, im := range f.Imports {
		if im.Path.Value == `"github.com/krotik/ecal/zzverif"` {
			zzName = "zzverif"
			if im.Name != nil {
				zzName = im.Name.Name
			}
		}
	}
	needImport := zzName == ""
	if needImport {
		zzName = "zzverif"
	}
	site := func(p token.Pos) ast.Expr {
		pos := fset.Position(p)
		return &ast.BasicLit{Kind: token.STRING, Value: fmt.Sprintf("%q", fmt.Sprintf("%s:%d:%d", pos.Filename, pos.Line, pos.Column))}
	}
	call := func(fn string, arg ast.Expr) ast.Stmt {
		return &ast.ExprStmt{X: &ast.CallExpr{Fun: &ast.SelectorExpr{X: ast.NewIdent(zzName), Sel: ast.NewIdent(fn)}, Args: []ast.Expr{arg}}}
	}
	isSync := func(c *ast.CallExpr) bool {
		se, ok := c.Fun.(*ast.SelectorExpr)
		return ok && syncSel[se.Sel.Name] && len(c.Args) <= 1
	}
	// statement-level pause points for reported racy accesses
	stmtAt := map[ast.Stmt][]string{}
	tf := fset.File(f.Pos())
	for _, sname := range stmtSites {
		var line, col int
		k := strings.LastIndex(sname, ".go:")
		if k < 0 {
			continue
		}
		if _, err := fmt.Sscanf(sname[k+4:], "%d:%d", &line, &col); err != nil || line < 1 || line > tf.LineCount() {
			continue
		}
		pos := tf.LineStart(line) + token.Pos(col-1)
		path, _ := astutil.PathEnclosingInterval(f, pos, pos)
		for i := 0; i+1 < len(path); i++ {
			st, ok := path[i].(ast.Stmt)
			if !ok {
				continue
			}
			switch path[i+1].(type) {
			case *ast.BlockStmt, *ast.CaseClause:
				stmtAt[st] = append(stmtAt[st], sname)
				i = len(path)
			}
		}
	}
	n := 0
	var rewrite func(list []ast.Stmt) []ast.Stmt
	rewrite = func(list []ast.Stmt) []ast.Stmt {
		var outl []ast.Stmt
		for _, st := range list {
			if sites, ok := stmtAt[st]; ok {
				// a statement that is itself an instrumented sync-like call gets its At/Done below under the same id
				syncID := ""
				switch s := st.(type) {
				case *ast.ExprStmt:
					if c, ok := s.X.(*ast.CallExpr); ok && isSync(c) && c.Lparen.IsValid() {
						pos := fset.Position(c.Lparen)
						syncID = fmt.Sprintf("%s:%d:%d", pos.Filename, pos.Line, pos.Column)
					}
				}
				for _, sn := range sites {
					if sn == syncID {
						continue
					}
					outl = append(outl, call("At", &ast.BasicLit{Kind: token.STRING, Value: fmt.Sprintf("%q", sn)}))
					outl = append(outl, call("Done", &ast.BasicLit{Kind: token.STRING, Value: fmt.Sprintf("%q", sn)}))
				}
				n++
			}
			switch s := st.(type) {
			case *ast.ExprStmt:
				if c, ok := s.X.(*ast.CallExpr); ok && isSync(c) && c.Lparen.IsValid() {
					id := site(c.Lparen)
					outl = append(outl, call("At", id), st, call("Done", id))
					n++
					continue
				}
			case *ast.DeferStmt:
				if isSync(s.Call) && len(s.Call.Args) == 0 {
					id := site(s.Defer)
					// __f := x.M ; defer func(){ At(id); __f(); Done(id) }()
					fv := ast.NewIdent(fmt.Sprintf("__zzf%d", n))
					n++
					outl = append(outl,
						&ast.AssignStmt{Lhs: []ast.Expr{fv}, Tok: token.DEFINE, Rhs: []ast.Expr{s.Call.Fun}},
						&ast.DeferStmt{Call: &ast.CallExpr{Fun: &ast.FuncLit{Type: &ast.FuncType{Params: &ast.FieldList{}},
							Body: &ast.BlockStmt{List: []ast.Stmt{call("At", id), &ast.ExprStmt{X: &ast.CallExpr{Fun: fv}}, call("Done", id)}}}}})
					continue
				}
			}
			outl = append(outl, st)
		}
		return outl
	}
	ast.Inspect(f, func(nd ast.Node) bool {
		switch b := nd.(type) {
		case *ast.BlockStmt:
			b.List = rewrite(b.List)
		case *ast.CaseClause:
			b.Body = rewrite(b.Body)
		}
		return true
	})
	if needImport {
		astutil.AddImport(fset, f, "github.com/krotik/ecal/zzverif")
	}
	var buf bytes.Buffer
	if err := printer.Fprint(&buf, fset, f); err != nil {
		return err
	}
	return os.WriteFile(out, buf.Bytes(), 0644)
}
