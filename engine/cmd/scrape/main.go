// scrape collects the ECAL source texts of the repository's own tests: string literals assigned to a variable named
// "input" and string literal arguments of calls to UnitTest* helpers, from the *_test.go files of the given directories.
// Output: a JSON list (unique, in order of appearance).  Used by tools/selftest.py (translator validation).
package main

import (
	"encoding/json"
	"go/ast"
	"go/parser"
	"go/token"
	"os"
	"path/filepath"
	"strconv"
	"strings"
)

func lit(e ast.Expr) (string, bool) {
	switch x := e.(type) {
	case *ast.BasicLit:
		if x.Kind == token.STRING {
			s, err := strconv.Unquote(x.Value)
			return s, err == nil
		}
	case *ast.BinaryExpr:
		if x.Op == token.ADD {
			a, ok1 := lit(x.X)
			b, ok2 := lit(x.Y)
			return a + b, ok1 && ok2
		}
	case *ast.ParenExpr:
		return lit(x.X)
	}
	return "", false
}

func main() {
	var out []string
	seen := map[string]bool{}
	add := func(s string) {
		if !seen[s] && len(s) < 2000 {
			seen[s] = true
			out = append(out, s)
		}
	}
	for _, dir := range os.Args[1:] {
		files, _ := filepath.Glob(filepath.Join(dir, "*_test.go"))
		for _, f := range files {
			if strings.Contains(f, "zz_") {
				continue
			}
			fs := token.NewFileSet()
			af, err := parser.ParseFile(fs, f, nil, 0)
			if err != nil {
				continue
			}
			ast.Inspect(af, func(n ast.Node) bool {
				switch x := n.(type) {
				case *ast.AssignStmt:
					for i, l := range x.Lhs {
						if id, ok := l.(*ast.Ident); ok && id.Name == "input" && i < len(x.Rhs) {
							if s, ok := lit(x.Rhs[i]); ok {
								add(s)
							}
						}
					}
				case *ast.CallExpr:
					name := ""
					if id, ok := x.Fun.(*ast.Ident); ok {
						name = id.Name
					}
					if strings.HasPrefix(name, "UnitTest") {
						for _, a := range x.Args {
							if s, ok := lit(a); ok && s != "" && s != "mytest" {
								add(s)
							}
						}
					}
				}
				return true
			})
		}
	}
	json.NewEncoder(os.Stdout).Encode(out)
}
