package smt

import "math"

// Eval computes the value of t under the assignment m (variable name -> bits).
// ok is false when a variable is missing or an operator is not evaluable natively.
func Eval(t *Term, m map[string]uint64, memo map[int]uint64) (uint64, bool) {
	if v, ok := memo[t.ID]; ok {
		return v, true
	}
	v, ok := eval1(t, m, memo)
	if ok {
		memo[t.ID] = v
	}
	return v, ok
}

func b2u(b bool) uint64 {
	if b {
		return 1
	}
	return 0
}

func eval1(t *Term, m map[string]uint64, memo map[int]uint64) (uint64, bool) {
	switch t.Op {
	case OConst:
		return t.Val, true
	case OVar:
		v := m[t.Name] // a variable absent from the model is unconstrained so far: 0 is as good as any value
		return v, true
	}
	args := make([]uint64, len(t.Args))
	if t.Op == OIte {
		g, ok := Eval(t.Args[0], m, memo)
		if !ok {
			return 0, false
		}
		if g == 1 {
			return Eval(t.Args[1], m, memo)
		}
		return Eval(t.Args[2], m, memo)
	}
	for i, a := range t.Args {
		v, ok := Eval(a, m, memo)
		if !ok {
			return 0, false
		}
		args[i] = v
	}
	w := 0
	if len(t.Args) > 0 {
		w = t.Args[0].Sort.W
	}
	mk := mask(t.Sort.W)
	f := math.Float64frombits
	fb := math.Float64bits
	switch t.Op {
	case ONot:
		return 1 - args[0], true
	case OAnd:
		return args[0] & args[1], true
	case OOr:
		return args[0] | args[1], true
	case OEq:
		if t.Args[0].Sort.K == KFP {
			a, b := f(args[0]), f(args[1])
			if math.IsNaN(a) || math.IsNaN(b) {
				return b2u(math.IsNaN(a) && math.IsNaN(b)), true
			}
			return b2u(args[0] == args[1]), true
		}
		return b2u(args[0] == args[1]), true
	case OAdd:
		return (args[0] + args[1]) & mk, true
	case OSub:
		return (args[0] - args[1]) & mk, true
	case OMul:
		return (args[0] * args[1]) & mk, true
	case OBAnd:
		return args[0] & args[1], true
	case OBOr:
		return args[0] | args[1], true
	case OBXor:
		return args[0] ^ args[1], true
	case ONeg:
		return (-args[0]) & mk, true
	case OBNot:
		return (^args[0]) & mk, true
	case OShl:
		if args[1] >= uint64(w) {
			return 0, true
		}
		return (args[0] << args[1]) & mk, true
	case OLShr:
		if args[1] >= uint64(w) {
			return 0, true
		}
		return args[0] >> args[1], true
	case OAShr:
		s := sext(args[0], w)
		c := args[1]
		if c >= uint64(w) {
			c = uint64(w - 1)
		}
		return uint64(s>>c) & mk, true
	case OUDiv:
		if args[1] == 0 {
			return mk, true
		}
		return args[0] / args[1], true
	case OURem:
		if args[1] == 0 {
			return args[0], true
		}
		return args[0] % args[1], true
	case OSDiv, OSRem:
		if args[1] == 0 {
			return 0, false
		}
		x, y := sext(args[0], w), sext(args[1], w)
		if y == -1 {
			if t.Op == OSDiv {
				return uint64(-x) & mk, true
			}
			return 0, true
		}
		if t.Op == OSDiv {
			return uint64(x/y) & mk, true
		}
		return uint64(x%y) & mk, true
	case OUlt:
		return b2u(args[0] < args[1]), true
	case OUle:
		return b2u(args[0] <= args[1]), true
	case OSlt:
		return b2u(sext(args[0], w) < sext(args[1], w)), true
	case OSle:
		return b2u(sext(args[0], w) <= sext(args[1], w)), true
	case OExtract:
		return (args[0] >> uint(t.Aux2)) & mk, true
	case OConcat:
		return (args[0]<<uint(t.Args[1].Sort.W) | args[1]) & mk, true
	case OZext:
		return args[0], true
	case OSext:
		return uint64(sext(args[0], w)) & mk, true
	}
	if t.Sort.W == 32 || (len(t.Args) > 0 && t.Args[0].Sort.K == KFP && t.Args[0].Sort.W == 32) {
		return 0, false
	}
	switch t.Op {
	case OFAdd:
		return fb(f(args[0]) + f(args[1])), true
	case OFSub:
		return fb(f(args[0]) - f(args[1])), true
	case OFMul:
		return fb(f(args[0]) * f(args[1])), true
	case OFDiv:
		return fb(f(args[0]) / f(args[1])), true
	case OFNeg:
		return fb(-f(args[0])), true
	case OFAbs:
		return fb(math.Abs(f(args[0]))), true
	case OFLt:
		return b2u(f(args[0]) < f(args[1])), true
	case OFLe:
		return b2u(f(args[0]) <= f(args[1])), true
	case OFEq:
		return b2u(f(args[0]) == f(args[1])), true
	case OFIsNaN:
		return b2u(math.IsNaN(f(args[0]))), true
	case OFIsInf:
		return b2u(math.IsInf(f(args[0]), 0)), true
	case OFFloor:
		return fb(math.Floor(f(args[0]))), true
	case OFTrunc:
		return fb(math.Trunc(f(args[0]))), true
	case OFCeil:
		return fb(math.Ceil(f(args[0]))), true
	case OFSqrt:
		return fb(math.Sqrt(f(args[0]))), true
	case OFFromSBV:
		return fb(float64(sext(args[0], w))), true
	case OFFromUBV:
		return fb(float64(args[0])), true
	case OFToSBV:
		x := f(args[0])
		if math.IsNaN(x) || x >= 9.3e18 || x <= -9.3e18 {
			return 0, false // unspecified in SMT-LIB
		}
		if t.Sort.W < 64 {
			lim := float64(int64(1) << uint(t.Sort.W-1))
			if math.Trunc(x) >= lim || math.Trunc(x) < -lim {
				return 0, false
			}
		}
		return uint64(int64(x)) & mk, true
	case OFToUBV:
		x := math.Trunc(f(args[0]))
		if math.IsNaN(x) || x < 0 || x >= 1.8446744073709552e19 {
			return 0, false
		}
		if t.Sort.W < 64 && x >= float64(uint64(1)<<uint(t.Sort.W)) {
			return 0, false
		}
		return uint64(x) & mk, true
	case OFRound32:
		return fb(float64(float32(f(args[0])))), true
	}
	return 0, false
}
