// Package smt: hash-consed term DAG with light simplification and an
// SMT-LIB2 printer.
package smt

import (
	"fmt"
	"math"
	"strings"
	"sync"
)

type Kind uint8

const (
	KBool Kind = iota
	KBV
	KFP
)

type Sort struct {
	K Kind
	W int // bit width for BV; 32/64 for FP
}

var Bool = Sort{KBool, 0}

func BV(w int) Sort { return Sort{KBV, w} }

var FP64 = Sort{KFP, 64}
var FP32 = Sort{KFP, 32}

func (s Sort) String() string {
	switch s.K {
	case KBool:
		return "Bool"
	case KBV:
		return fmt.Sprintf("(_ BitVec %d)", s.W)
	default:
		if s.W == 32 {
			return "(_ FloatingPoint 8 24)"
		}
		return "(_ FloatingPoint 11 53)"
	}
}

type Op uint8

const (
	OConst Op = iota
	OVar
	ONot
	OAnd
	OOr
	OIte
	OEq
	// BV
	OAdd
	OSub
	OMul
	OUDiv
	OSDiv
	OURem
	OSRem
	OBAnd
	OBOr
	OBXor
	OShl
	OLShr
	OAShr
	ONeg
	OBNot
	OUlt
	OUle
	OSlt
	OSle
	OExtract // aux: hi, lo
	OConcat
	OZext // aux: extra bits
	OSext
	// FP
	OFAdd
	OFSub
	OFMul
	OFDiv
	OFNeg
	OFAbs
	OFLt
	OFLe
	OFEq
	OFIsNaN
	OFIsInf
	OFFloor    // roundToIntegral RTN
	OFTrunc    // roundToIntegral RTZ
	OFCeil     // roundToIntegral RTP
	OFSqrt
	OFFromSBV  // to_fp signed
	OFFromUBV  // to_fp unsigned
	OFToSBV    // fp.to_sbv RTZ, aux = width (unspecified outside range: callers guard)
	OFToUBV    // fp.to_ubv RTZ
	OFFromBits // to_fp from ieee bit pattern
	OFConv     // fp -> fp of other width
	OFRound32  // float64 -> float32 -> float64 (RNE): the float64 value of float32(x)
)

var opNames = map[Op]string{
	ONot: "not", OAnd: "and", OOr: "or", OIte: "ite", OEq: "=",
	OAdd: "bvadd", OSub: "bvsub", OMul: "bvmul", OUDiv: "bvudiv", OSDiv: "bvsdiv", OURem: "bvurem", OSRem: "bvsrem",
	OBAnd: "bvand", OBOr: "bvor", OBXor: "bvxor", OShl: "bvshl", OLShr: "bvlshr", OAShr: "bvashr", ONeg: "bvneg", OBNot: "bvnot",
	OUlt: "bvult", OUle: "bvule", OSlt: "bvslt", OSle: "bvsle", OConcat: "concat",
	OFAdd: "fp.add RNE", OFSub: "fp.sub RNE", OFMul: "fp.mul RNE", OFDiv: "fp.div RNE", OFNeg: "fp.neg", OFAbs: "fp.abs",
	OFLt: "fp.lt", OFLe: "fp.leq", OFEq: "fp.eq", OFIsNaN: "fp.isNaN", OFIsInf: "fp.isInfinite", OFFloor: "fp.roundToIntegral RTN", OFTrunc: "fp.roundToIntegral RTZ", OFCeil: "fp.roundToIntegral RTP", OFSqrt: "fp.sqrt RNE",
}

type Term struct {
	ID   int
	Op   Op
	Sort Sort
	Args []*Term
	Val  uint64 // constant value (BV bits, bool 0/1, FP ieee bits)
	Aux  int
	Aux2 int
	Name string
}

type Ctx struct {
	mu    sync.Mutex
	table map[string]*Term
	next  int
	True  *Term
	False *Term
	Vars  []*Term
}

func NewCtx() *Ctx {
	c := &Ctx{table: map[string]*Term{}}
	c.True = c.mk(&Term{Op: OConst, Sort: Bool, Val: 1})
	c.False = c.mk(&Term{Op: OConst, Sort: Bool, Val: 0})
	return c
}

func (c *Ctx) mk(t *Term) *Term {
	var sb strings.Builder
	fmt.Fprintf(&sb, "%d|%d|%d|%d|%d|%d|%s", t.Op, t.Sort.K, t.Sort.W, t.Val, t.Aux, t.Aux2, t.Name)
	for _, a := range t.Args {
		fmt.Fprintf(&sb, "|%d", a.ID)
	}
	k := sb.String()
	c.mu.Lock()
	defer c.mu.Unlock()
	if e, ok := c.table[k]; ok {
		return e
	}
	c.next++
	t.ID = c.next
	c.table[k] = t
	if t.Op == OVar {
		c.Vars = append(c.Vars, t)
	}
	return t
}

func (t *Term) IsConst() bool { return t.Op == OConst }

func mask(w int) uint64 {
	if w >= 64 {
		return ^uint64(0)
	}
	return (uint64(1) << uint(w)) - 1
}

func sext(v uint64, w int) int64 {
	if w >= 64 {
		return int64(v)
	}
	sh := uint(64 - w)
	return int64(v<<sh) >> sh
}

func (c *Ctx) BoolConst(b bool) *Term {
	if b {
		return c.True
	}
	return c.False
}
func (c *Ctx) BVConst(v uint64, w int) *Term {
	return c.mk(&Term{Op: OConst, Sort: BV(w), Val: v & mask(w)})
}
func (c *Ctx) FPConst(f float64) *Term {
	return c.mk(&Term{Op: OConst, Sort: FP64, Val: math.Float64bits(f)})
}
func (c *Ctx) Var(name string, s Sort) *Term { return c.mk(&Term{Op: OVar, Sort: s, Name: name}) }

func (c *Ctx) Not(a *Term) *Term {
	if a.IsConst() {
		return c.BoolConst(a.Val == 0)
	}
	if a.Op == ONot {
		return a.Args[0]
	}
	return c.mk(&Term{Op: ONot, Sort: Bool, Args: []*Term{a}})
}
func (c *Ctx) And(a, b *Term) *Term {
	if a.IsConst() {
		if a.Val == 0 {
			return c.False
		}
		return b
	}
	if b.IsConst() {
		if b.Val == 0 {
			return c.False
		}
		return a
	}
	if a == b {
		return a
	}
	return c.mk(&Term{Op: OAnd, Sort: Bool, Args: []*Term{a, b}})
}
func (c *Ctx) Or(a, b *Term) *Term {
	if a.IsConst() {
		if a.Val == 1 {
			return c.True
		}
		return b
	}
	if b.IsConst() {
		if b.Val == 1 {
			return c.True
		}
		return a
	}
	if a == b {
		return a
	}
	return c.mk(&Term{Op: OOr, Sort: Bool, Args: []*Term{a, b}})
}
func (c *Ctx) Ite(g, a, b *Term) *Term {
	if g.IsConst() {
		if g.Val == 1 {
			return a
		}
		return b
	}
	if a == b {
		return a
	}
	if a.Sort.K == KBool && a.IsConst() && b.IsConst() {
		if a.Val == 1 {
			return g
		}
		return c.Not(g)
	}
	return c.mk(&Term{Op: OIte, Sort: a.Sort, Args: []*Term{g, a, b}})
}
func (c *Ctx) Eq(a, b *Term) *Term {
	if a == b {
		return c.True
	}
	if a.IsConst() && b.IsConst() {
		return c.BoolConst(a.Val == b.Val)
	}
	if a.Sort.K == KBool {
		if a.IsConst() {
			if a.Val == 1 {
				return b
			}
			return c.Not(b)
		}
		if b.IsConst() {
			if b.Val == 1 {
				return a
			}
			return c.Not(a)
		}
	}
	// eq(ite(g,c1,c2), c3) with constants -> fold
	if b.IsConst() && a.Op == OIte && a.Args[1].IsConst() && a.Args[2].IsConst() {
		return c.Ite(a.Args[0], c.Eq(a.Args[1], b), c.Eq(a.Args[2], b))
	}
	if a.IsConst() && b.Op == OIte && b.Args[1].IsConst() && b.Args[2].IsConst() {
		return c.Ite(b.Args[0], c.Eq(b.Args[1], a), c.Eq(b.Args[2], a))
	}
	if a.ID > b.ID {
		a, b = b, a
	}
	return c.mk(&Term{Op: OEq, Sort: Bool, Args: []*Term{a, b}})
}

// BVBin builds a binary bit-vector operation with constant folding.
func (c *Ctx) BVBin(op Op, a, b *Term) *Term {
	w := a.Sort.W
	if a.IsConst() && b.IsConst() {
		x, y := a.Val, b.Val
		m := mask(w)
		switch op {
		case OAdd:
			return c.BVConst(x+y, w)
		case OSub:
			return c.BVConst(x-y, w)
		case OMul:
			return c.BVConst(x*y, w)
		case OBAnd:
			return c.BVConst(x&y, w)
		case OBOr:
			return c.BVConst(x|y, w)
		case OBXor:
			return c.BVConst(x^y, w)
		case OShl:
			if y >= uint64(w) {
				return c.BVConst(0, w)
			}
			return c.BVConst(x<<y, w)
		case OLShr:
			if y >= uint64(w) {
				return c.BVConst(0, w)
			}
			return c.BVConst(x>>y, w)
		case OAShr:
			s := sext(x, w)
			if y >= uint64(w) {
				y = uint64(w - 1)
			}
			return c.BVConst(uint64(s>>y), w)
		case OUDiv:
			if y == 0 {
				return c.BVConst(m, w)
			}
			return c.BVConst(x/y, w)
		case OURem:
			if y == 0 {
				return c.BVConst(x, w)
			}
			return c.BVConst(x%y, w)
		case OSDiv:
			if y == 0 {
				break
			}
			sx, sy := sext(x, w), sext(y, w)
			if sy == -1 {
				return c.BVConst(uint64(-sx), w)
			}
			return c.BVConst(uint64(sx/sy), w)
		case OSRem:
			if y == 0 {
				break
			}
			sx, sy := sext(x, w), sext(y, w)
			if sy == -1 {
				return c.BVConst(0, w)
			}
			return c.BVConst(uint64(sx%sy), w)
		}
	}
	// identities
	switch op {
	case OAdd:
		if a.IsConst() && a.Val == 0 {
			return b
		}
		if b.IsConst() && b.Val == 0 {
			return a
		}
	case OSub:
		if b.IsConst() && b.Val == 0 {
			return a
		}
		if a == b {
			return c.BVConst(0, w)
		}
	case OBAnd:
		if a == b {
			return a
		}
	case OBOr:
		if a == b {
			return a
		}
	}
	return c.mk(&Term{Op: op, Sort: a.Sort, Args: []*Term{a, b}})
}

func (c *Ctx) BVCmp(op Op, a, b *Term) *Term {
	w := a.Sort.W
	if a.IsConst() && b.IsConst() {
		switch op {
		case OUlt:
			return c.BoolConst(a.Val < b.Val)
		case OUle:
			return c.BoolConst(a.Val <= b.Val)
		case OSlt:
			return c.BoolConst(sext(a.Val, w) < sext(b.Val, w))
		case OSle:
			return c.BoolConst(sext(a.Val, w) <= sext(b.Val, w))
		}
	}
	if a == b {
		return c.BoolConst(op == OUle || op == OSle)
	}
	return c.mk(&Term{Op: op, Sort: Bool, Args: []*Term{a, b}})
}

func (c *Ctx) BVUn(op Op, a *Term) *Term {
	if a.IsConst() {
		if op == ONeg {
			return c.BVConst(-a.Val, a.Sort.W)
		}
		return c.BVConst(^a.Val, a.Sort.W)
	}
	return c.mk(&Term{Op: op, Sort: a.Sort, Args: []*Term{a}})
}

func (c *Ctx) Extract(a *Term, hi, lo int) *Term {
	if hi == a.Sort.W-1 && lo == 0 {
		return a
	}
	if a.IsConst() {
		return c.BVConst(a.Val>>uint(lo), hi-lo+1)
	}
	if (a.Op == OZext || a.Op == OSext) && hi < a.Args[0].Sort.W {
		return c.Extract(a.Args[0], hi, lo)
	}
	return c.mk(&Term{Op: OExtract, Sort: BV(hi - lo + 1), Args: []*Term{a}, Aux: hi, Aux2: lo})
}

func (c *Ctx) Zext(a *Term, w int) *Term {
	if w == a.Sort.W {
		return a
	}
	if w < a.Sort.W {
		return c.Extract(a, w-1, 0)
	}
	if a.IsConst() {
		return c.BVConst(a.Val, w)
	}
	return c.mk(&Term{Op: OZext, Sort: BV(w), Args: []*Term{a}, Aux: w - a.Sort.W})
}

func (c *Ctx) Sext(a *Term, w int) *Term {
	if w == a.Sort.W {
		return a
	}
	if w < a.Sort.W {
		return c.Extract(a, w-1, 0)
	}
	if a.IsConst() {
		return c.BVConst(uint64(sext(a.Val, a.Sort.W)), w)
	}
	return c.mk(&Term{Op: OSext, Sort: BV(w), Args: []*Term{a}, Aux: w - a.Sort.W})
}

// ---- floating point (64 bit only folded) ----

func (c *Ctx) FPBin(op Op, a, b *Term) *Term {
	if a.IsConst() && b.IsConst() && a.Sort.W == 64 {
		x, y := math.Float64frombits(a.Val), math.Float64frombits(b.Val)
		switch op {
		case OFAdd:
			return c.FPConst(x + y)
		case OFSub:
			return c.FPConst(x - y)
		case OFMul:
			return c.FPConst(x * y)
		case OFDiv:
			return c.FPConst(x / y)
		}
	}
	return c.mk(&Term{Op: op, Sort: a.Sort, Args: []*Term{a, b}})
}

func (c *Ctx) FPCmp(op Op, a, b *Term) *Term {
	if a.IsConst() && b.IsConst() && a.Sort.W == 64 {
		x, y := math.Float64frombits(a.Val), math.Float64frombits(b.Val)
		switch op {
		case OFLt:
			return c.BoolConst(x < y)
		case OFLe:
			return c.BoolConst(x <= y)
		case OFEq:
			return c.BoolConst(x == y)
		}
	}
	return c.mk(&Term{Op: op, Sort: Bool, Args: []*Term{a, b}})
}

func (c *Ctx) FPUn(op Op, a *Term) *Term {
	if a.IsConst() && a.Sort.W == 64 {
		x := math.Float64frombits(a.Val)
		switch op {
		case OFNeg:
			return c.FPConst(-x)
		case OFAbs:
			return c.FPConst(math.Abs(x))
		case OFFloor:
			return c.FPConst(math.Floor(x))
		case OFTrunc:
			return c.FPConst(math.Trunc(x))
		case OFCeil:
			return c.FPConst(math.Ceil(x))
		case OFSqrt:
			return c.FPConst(math.Sqrt(x))
		case OFIsNaN:
			return c.BoolConst(math.IsNaN(x))
		case OFIsInf:
			return c.BoolConst(math.IsInf(x, 0))
		}
	}
	s := a.Sort
	if op == OFIsNaN || op == OFIsInf {
		s = Bool
	}
	return c.mk(&Term{Op: op, Sort: s, Args: []*Term{a}})
}

func (c *Ctx) FPFromSBV(a *Term) *Term {
	if a.IsConst() {
		return c.FPConst(float64(sext(a.Val, a.Sort.W)))
	}
	if a.Op == OIte {
		return c.Ite(a.Args[0], c.FPFromSBV(a.Args[1]), c.FPFromSBV(a.Args[2]))
	}
	if a.Op == OSext {
		return c.FPFromSBV(a.Args[0]) // the value of a sign-extended integer is the value of the integer
	}
	if a.Op == OZext && a.Sort.W > a.Args[0].Sort.W {
		return c.FPFromUBV(a.Args[0])
	}
	if a.Op == OFToSBV && a.Args[0].Sort.W == 64 {
		// float64 -> intN -> float64 is truncation wherever the first conversion is specified (every such term is built
		// under an in-range guard, see convert); adding +0 turns the -0 of a truncated (-1,0) into the +0 an integer gives
		return c.FPBin(OFAdd, c.FPUn(OFTrunc, a.Args[0]), c.FPConst(0))
	}
	return c.mk(&Term{Op: OFFromSBV, Sort: FP64, Args: []*Term{a}})
}
func (c *Ctx) FPFromUBV(a *Term) *Term {
	if a.IsConst() {
		return c.FPConst(float64(a.Val))
	}
	if a.Op == OIte {
		return c.Ite(a.Args[0], c.FPFromUBV(a.Args[1]), c.FPFromUBV(a.Args[2]))
	}
	if a.Op == OZext {
		return c.FPFromUBV(a.Args[0])
	}
	if a.Op == OFToUBV && a.Args[0].Sort.W == 64 {
		return c.FPBin(OFAdd, c.FPUn(OFTrunc, a.Args[0]), c.FPConst(0))
	}
	return c.mk(&Term{Op: OFFromUBV, Sort: FP64, Args: []*Term{a}})
}

// FPRound32 is float64(float32(a)).
func (c *Ctx) FPRound32(a *Term) *Term {
	if a.IsConst() {
		return c.FPConst(float64(float32(math.Float64frombits(a.Val))))
	}
	if a.Op == OFRound32 {
		return a
	}
	return c.mk(&Term{Op: OFRound32, Sort: FP64, Args: []*Term{a}})
}

// FPToSBV is the raw SMT conversion (RTZ); unspecified out of range.
func (c *Ctx) FPToSBV(a *Term, w int) *Term {
	if a.IsConst() && a.Sort.W == 64 {
		x := math.Trunc(math.Float64frombits(a.Val))
		lim := math.Ldexp(1, w-1)
		if x >= -lim && x < lim { // in range: the conversion is specified (truncation)
			return c.BVConst(uint64(int64(x)), w)
		}
	}
	return c.mk(&Term{Op: OFToSBV, Sort: BV(w), Args: []*Term{a}, Aux: w})
}
func (c *Ctx) FPToUBV(a *Term, w int) *Term {
	if a.IsConst() && a.Sort.W == 64 {
		x := math.Trunc(math.Float64frombits(a.Val))
		if x >= 0 && x < math.Ldexp(1, w) {
			return c.BVConst(uint64(x), w)
		}
	}
	return c.mk(&Term{Op: OFToUBV, Sort: BV(w), Args: []*Term{a}, Aux: w})
}

// ---- printing ----

func (t *Term) constString() string {
	switch t.Sort.K {
	case KBool:
		if t.Val == 1 {
			return "true"
		}
		return "false"
	case KBV:
		if t.Sort.W%4 == 0 {
			return fmt.Sprintf("#x%0*x", t.Sort.W/4, t.Val)
		}
		return fmt.Sprintf("#b%0*b", t.Sort.W, t.Val)
	default:
		b := t.Val
		return fmt.Sprintf("(fp #b%b #b%011b #x%013x)", b>>63, (b>>52)&0x7ff, b&((1<<52)-1))
	}
}

// Head returns the SMT-LIB operator text for a non-leaf term.
func (t *Term) Head() string {
	switch t.Op {
	case OExtract:
		return fmt.Sprintf("(_ extract %d %d)", t.Aux, t.Aux2)
	case OZext:
		return fmt.Sprintf("(_ zero_extend %d)", t.Aux)
	case OSext:
		return fmt.Sprintf("(_ sign_extend %d)", t.Aux)
	case OFFromSBV:
		return "(_ to_fp 11 53) RNE"
	case OFFromUBV:
		return "(_ to_fp_unsigned 11 53) RNE"
	case OFToSBV:
		return fmt.Sprintf("(_ fp.to_sbv %d) RTZ", t.Aux)
	case OFToUBV:
		return fmt.Sprintf("(_ fp.to_ubv %d) RTZ", t.Aux)
	case OFFromBits:
		return "(_ to_fp 11 53)"
	}
	return opNames[t.Op]
}
