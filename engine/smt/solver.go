package smt

import (
	"os"
	"bufio"
	"fmt"
	"io"
	"os/exec"
	"strconv"
	"strings"
	"time"
)

var logSeq int

type Result int

const (
	Sat Result = iota
	Unsat
	Unknown
)

func (r Result) String() string { return [...]string{"sat", "unsat", "unknown"}[r] }

// Solver drives one incremental SMT-LIB2 process.
type Solver struct {
	cmd     *exec.Cmd
	in      io.WriteCloser
	out     *bufio.Reader
	defined []map[int]bool // per push level: term ids with define-fun / declared vars
	stack   []*Term        // asserted path condition, one push level each
	Queries [3]int
	Time    time.Duration
	Log     io.Writer
	timeout int
	pendingSat bool
	lines      chan string
	Restarts   int
	wasRestarted bool
	bin        string
	ValTime    time.Duration
	Errors     int
}

func NewSolver(timeoutMs int) (*Solver, error) {
	bin := "z3-new"
	if b := os.Getenv("GOSYM_Z3"); b != "" {
		bin = b
	}
	s := &Solver{timeout: timeoutMs, bin: bin}
	if err := s.start(); err != nil {
		return nil, err
	}
	return s, nil
}

func (s *Solver) start() error {
	cmd := exec.Command(s.bin, "-in", fmt.Sprintf("-t:%d", s.timeout))
	in, _ := cmd.StdinPipe()
	out, _ := cmd.StdoutPipe()
	cmd.Stderr = cmd.Stdout
	if err := cmd.Start(); err != nil {
		return err
	}
	s.cmd, s.in, s.out = cmd, in, bufio.NewReader(out)
	if dir := os.Getenv("GOSYM_SMTLOG"); dir != "" {
		// one SMT-LIB2 script per solver process (a restart begins a new one), with the verdict after every check-sat:
		// input of tools/solver_diff.py, which replays the scripts through other solvers
		logSeq++
		if f, err := os.Create(fmt.Sprintf("%s/q-%d-%d.smt2", dir, os.Getpid(), logSeq)); err == nil {
			s.Log = f
		}
	}
	s.defined = []map[int]bool{{}}
	s.stack = nil
	s.pendingSat = false
	lines := make(chan string, 64)
	s.lines = lines
	rd := s.out
	go func() {
		for {
			l, err := rd.ReadString('\n')
			if err != nil {
				close(lines)
				return
			}
			lines <- l
		}
	}()
	s.send("(set-option :global-declarations true)")
	s.send("(set-option :produce-models true)")
	return nil
}

// restart kills a stuck solver and starts a fresh one; the next Sync re-asserts the path condition.
func (s *Solver) restart() {
	s.cmd.Process.Kill()
	s.cmd.Wait()
	s.Restarts++
	s.start()
}

func (s *Solver) readLine(d time.Duration) (string, bool) {
	select {
	case l, ok := <-s.lines:
		return l, ok
	case <-time.After(d):
		return "", false
	}
}

func (s *Solver) Close() { s.in.Close(); s.cmd.Wait() }

func (s *Solver) send(line string) {
	if s.Log != nil {
		fmt.Fprintln(s.Log, line)
	}
	io.WriteString(s.in, line+"\n")
}

func (s *Solver) isDefined(id int) bool {
	for _, m := range s.defined {
		if m[id] {
			return true
		}
	}
	return false
}

// ref emits definitions for t (bottom-up) and returns the text to reference it.
func (s *Solver) ref(t *Term) string {
	switch t.Op {
	case OConst:
		return t.constString()
	case OVar:
		if !s.isDefined(t.ID) {
			s.send(fmt.Sprintf("(declare-const %s %s)", t.Name, t.Sort))
			s.defined[0][t.ID] = true
		}
		return t.Name
	}
	name := "t" + strconv.Itoa(t.ID)
	if s.isDefined(t.ID) {
		return name
	}
	var sb strings.Builder
	if t.Op == OFRound32 {
		s.send(fmt.Sprintf("(define-fun %s () %s ((_ to_fp 11 53) RNE ((_ to_fp 8 24) RNE %s)))", name, t.Sort, s.ref(t.Args[0])))
		s.defined[0][t.ID] = true
		return name
	}
	sb.WriteString("(")
	sb.WriteString(t.Head())
	for _, a := range t.Args {
		sb.WriteString(" ")
		sb.WriteString(s.ref(a))
	}
	sb.WriteString(")")
	s.send(fmt.Sprintf("(define-fun %s () %s %s)", name, t.Sort, sb.String()))
	s.defined[0][t.ID] = true
	return name
}

func (s *Solver) push() { s.send("(push)"); s.defined = append(s.defined, map[int]bool{}) }
func (s *Solver) pop()  { s.send("(pop)"); s.defined = s.defined[:len(s.defined)-1] }

// Sync makes the solver's assertion stack equal to pc.
func (s *Solver) Sync(pc []*Term) {
	n := 0
	for n < len(pc) && n < len(s.stack) && pc[n] == s.stack[n] {
		n++
	}
	for len(s.stack) > n {
		s.pop()
		s.stack = s.stack[:len(s.stack)-1]
	}
	for _, t := range pc[n:] {
		s.push()
		s.send(fmt.Sprintf("(assert %s)", s.ref(t)))
		s.stack = append(s.stack, t)
	}
}

// Check decides pc /\ extra.
var Sites = map[string]int{}

func (s *Solver) Check(pc []*Term, extra *Term) Result {
	start := time.Now()
	defer func() { s.Time += time.Since(start) }()
	s.Sync(pc)
	s.push()
	if extra != nil {
		s.send(fmt.Sprintf("(assert %s)", s.ref(extra)))
	}
	s.send("(check-sat)")
	s.wasRestarted = false
	r := s.readResult()
	if s.Log != nil {
		fmt.Fprintln(s.Log, "; VERDICT", r)
	}
	s.Queries[r]++
	if r != Sat && !s.wasRestarted {
		s.pop()
	}
	// on Sat the extra level stays until Model()/Done() is called
	s.pendingSat = r == Sat
	return r
}

func (s *Solver) readResult() Result {
	deadline := time.Duration(s.timeout)*time.Millisecond + 3*time.Second
	for {
		line, ok := s.readLine(deadline)
		if !ok {
			s.restart()
			s.wasRestarted = true
			return Unknown
		}
		line = strings.TrimSpace(line)
		switch {
		case line == "sat":
			return Sat
		case line == "unsat":
			return Unsat
		case line == "unknown" || line == "timeout":
			return Unknown
		case strings.HasPrefix(line, "(error"):
			if s.Log != nil {
				fmt.Fprintln(s.Log, "; SOLVER ERROR:", line)
			}
			fmt.Println("SOLVER ERROR:", line)
			// keep reading until a verdict arrives; verdict is distrusted by caller via Errors
			s.Errors++
		}
	}
}

// Values returns the model values (as uint64 bit patterns) for vars; must follow a Sat Check.
func (s *Solver) Values(vars []*Term) map[string]uint64 {
	t0 := time.Now()
	defer func() { s.ValTime += time.Since(t0) }()
	res := map[string]uint64{}
	if !s.pendingSat || len(vars) == 0 {
		return res
	}
	var names []string
	for _, v := range vars {
		if s.isDefined(v.ID) {
			names = append(names, v.Name)
		}
	}
	if len(names) == 0 {
		return res
	}
	s.send("(get-value (" + strings.Join(names, " ") + "))")
	// read balanced s-expression
	depth := 0
	var sb strings.Builder
	for {
		line, ok := s.readLine(20 * time.Second)
		if !ok {
			s.restart()
			return res
		}
		sb.WriteString(line)
		depth += strings.Count(line, "(") - strings.Count(line, ")")
		if depth <= 0 && strings.TrimSpace(line) != "" {
			break
		}
	}
	parseValues(sb.String(), res)
	return res
}

// Done releases the level kept after a Sat answer.
func (s *Solver) Done() {
	if s.pendingSat {
		s.pop()
		s.pendingSat = false
	}
}

func parseValues(txt string, res map[string]uint64) {
	// entries look like (name #x..), (name #b..), (name true), (name (fp #b0 #b... #x...)), (name (_ +zero 11 53)) ...
	toks := tokenize(txt)
	i := 0
	// skip outer (
	for i < len(toks) {
		if toks[i] == "(" && i+1 < len(toks) && toks[i+1] != "(" {
			name := toks[i+1]
			i += 2
			v, ni := parseVal(toks, i)
			res[name] = v
			i = ni
			continue
		}
		i++
	}
}

func tokenize(s string) []string {
	s = strings.ReplaceAll(s, "(", " ( ")
	s = strings.ReplaceAll(s, ")", " ) ")
	return strings.Fields(s)
}

func parseLit(t string) uint64 {
	switch {
	case t == "true":
		return 1
	case t == "false":
		return 0
	case strings.HasPrefix(t, "#x"):
		v, _ := strconv.ParseUint(t[2:], 16, 64)
		return v
	case strings.HasPrefix(t, "#b"):
		v, _ := strconv.ParseUint(t[2:], 2, 64)
		return v
	}
	return 0
}

func parseVal(toks []string, i int) (uint64, int) {
	if toks[i] != "(" {
		return parseLit(toks[i]), i + 1
	}
	// ( fp s e m ) or ( _ +zero 11 53 ) etc.
	j := i + 1
	if toks[j] == "fp" {
		s, e, m := parseLit(toks[j+1]), parseLit(toks[j+2]), parseLit(toks[j+3])
		return s<<63 | e<<52 | m, j + 5
	}
	if toks[j] == "_" {
		var v uint64
		switch toks[j+1] {
		case "+zero":
			v = 0
		case "-zero":
			v = 1 << 63
		case "+oo":
			v = 0x7ff << 52
		case "-oo":
			v = 0xfff << 52
		case "NaN":
			v = 0x7ff8 << 48
		}
		for toks[j] != ")" {
			j++
		}
		return v, j + 1
	}
	for toks[j] != ")" {
		j++
	}
	return 0, j + 1
}
