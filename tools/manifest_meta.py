NOTES = ("All checks are decided by the same technique: bounded symbolic execution of the real Go code (SSA of /repo's working tree, "
         "rebuilt on every run) with an SMT solver deciding every branch/assertion/panic/unwinding obligation; see DESIGN.md. "
         "Properties listed under not_applicable are either outside the technique's reach or not yet built (reason says which).")

_todo = "check not built yet in this session (planned with the same technique, see DESIGN.md section 5)"
NOT_APPLICABLE = {("C%02d" % i): _todo for i in range(1, 21)}
NOT_APPLICABLE["C19"] = ("deciding code is Go's reflection runtime (reflect.Value.Call, Type.In/Kind) and native math bodies; an SSA-level "
                         "symbolic executor cannot encode reflect, and a hand model of it would verify the model, not the bridge (DESIGN.md section 6)")
