#!/usr/bin/env python3
"""Prints the markdown tables of DESIGN.md section 0 that are derived from data: seeds (from seeded/*/meta.json) and status (specs + evidence)."""
import json, glob, os, sys, ast
V = os.path.dirname(os.path.dirname(os.path.abspath(__file__)))
sys.path.insert(0, os.path.join(V, "tools"))
from specs import SPECS

def seeds(prefix):
    print("| seed | property | needs to manifest | result | caught by |")
    print("|---|---|---|---|---|")
    for d in sorted(glob.glob(os.path.join(V, "seeded", prefix + "*"))):
        m = json.load(open(d + "/meta.json"))
        cr = m["check_result"]
        if isinstance(cr, str):
            try:
                cr = ast.literal_eval(cr)
            except Exception:
                cr = {"caught_by": cr, "status": ""}
        f = lambda s: str(s).replace("|", "/").replace("\n", " ")
        print("| %s | %s | %s | %s | %s |" % (m["seed"], m["breaks_property"], f(m["needs_to_manifest"]), f(cr.get("status", "")), f(cr.get("caught_by", ""))))

def status():
    print("| id | harnesses (quick tier) | quick wall | paths | solver queries | result on the unchanged tree |")
    print("|---|---|---|---|---|---|")
    for pid in sorted(SPECS):
        hs = [h["name"] for h in SPECS[pid]["harnesses"] if h.get("quick")]
        ev = {}
        p = os.path.join(V, "evidence", pid + ".json")
        if os.path.exists(p):
            ev = json.load(open(p))
        cov = ev.get("coverage", {})
        kf = cov.get("known_findings_hit", [])
        res = "holds" + ("; KNOWN " + ", ".join(kf) if kf else "")
        if ev.get("violations"):
            res = "VIOLATION"
        if cov.get("inconclusive"):
            res += "; %d inconclusive" % len(cov["inconclusive"])
        print("| %s | %s | %s s | %s | %s | %s |" % (pid, ", ".join(hs), int(ev.get("wall_s", 0)), cov.get("paths", "?"), cov.get("evaluations", "?"), res))

def capture(fn, *a):
    import io, contextlib
    buf = io.StringIO()
    with contextlib.redirect_stdout(buf):
        fn(*a)
    return buf.getvalue()

def update_design():
    p = os.path.join(V, "DESIGN.md")
    s = open(p).read()
    for tag, text in (("STATUS-TABLE", capture(status)), ("SEEDS-R2", capture(seeds, "r2")), ("SEEDS-R3", capture(seeds, "r3")), ("SEEDS-R4", capture(seeds, "r4"))):
        b, e = "<!-- %s-BEGIN -->" % tag, "<!-- %s-END -->" % tag
        i, j = s.index(b) + len(b), s.index(e)
        s = s[:i] + "\n" + text + s[j:]
    open(p, "w").write(s)
    print("DESIGN.md tables updated")

if __name__ == "__main__":
    what = sys.argv[1]
    if what == "seeds":
        seeds(sys.argv[2])
    elif what == "update":
        update_design()
    else:
        status()
