#!/bin/sh
# usage: thorough_sweep.sh [ids...]  : runs the thorough tier of the given (default: all) properties one after the other, --strict,
# and prints one line per property (development aid; evidence files of the sweep land in the snapshot it runs in)
IDS="$@"; [ -n "$IDS" ] || IDS="C05 C04 C10 C17 C14 C19 C20 C08 C18 C03 C06 C09 C01 C07 C16 C11 C13 C02 C15 C12"
for p in $IDS; do
  s=$(date +%s)
  ./check $p --tier thorough --strict > sweep_$p.log 2>&1; rc=$?
  echo "$p exit=$rc $(( $(date +%s) - s ))s $(grep SUMMARY sweep_$p.log | cut -c1-200)"
  grep "^VIOLATION\|^INCONCLUSIVE" sweep_$p.log | cut -c1-260 | head -8
done
