#!/usr/bin/env python3
"""solver_diff.py <property> <harness> [max_scripts]
Re-runs one harness with GOSYM_SMTLOG set (every solver process of the run writes the SMT-LIB2 script it was sent, with the verdict it
gave after each check-sat) and replays the scripts through the other installed solvers (z3 4.8.12 = /usr/bin/z3, cvc5 --incremental).
A definite disagreement (sat vs unsat) on any query is reported; unknown/timeout on one side is counted, not a disagreement.
The guidance asks for this diff once per encoding change; it is a development aid, not part of a registered check."""
import os, subprocess, sys, glob, shutil, json, tempfile
V = os.path.dirname(os.path.dirname(os.path.abspath(__file__)))
pid, harness = sys.argv[1], sys.argv[2]
maxs = int(sys.argv[3]) if len(sys.argv) > 3 else 4
d = tempfile.mkdtemp(prefix="smtlog")
env = dict(os.environ, GOSYM_SMTLOG=d, VERIF_SUFFIX="-smtdiff", VERIF_WORKERS="4")
subprocess.run([os.path.join(V, "check"), pid, "--only", harness], env=env, stdout=subprocess.DEVNULL, stderr=subprocess.DEVNULL)
scripts = sorted(glob.glob(d + "/*.smt2"), key=os.path.getsize, reverse=True)
print("%d scripts logged; replaying the %d largest" % (len(scripts), min(maxs, len(scripts))))
tot = {"queries": 0, "agree": 0, "other_unknown": 0, "disagree": 0}
for sc in scripts[:maxs]:
    lines = open(sc).read().splitlines()
    ref = [l.split()[2] for l in lines if l.startswith("; VERDICT")]
    body = "\n".join(l for l in lines if not l.startswith(";")) + "\n"
    for name, cmd in (("z3-4.8.12", ["/usr/bin/z3", "-in", "-t:20000"]), ("cvc5", ["cvc5", "--incremental", "--produce-models", "--tlimit-per=20000", "--lang=smt2"])):
        try:
            out = subprocess.run(cmd, input=body, capture_output=True, text=True, timeout=1800).stdout
        except subprocess.TimeoutExpired:
            print("  %s on %s: timed out as a whole" % (name, os.path.basename(sc))); continue
        got = [l.strip() for l in out.splitlines() if l.strip() in ("sat", "unsat", "unknown", "timeout")]
        errs = [l for l in out.splitlines() if l.startswith("(error")]
        n = min(len(ref), len(got))
        dis = [(i, ref[i], got[i]) for i in range(n) if {ref[i], got[i]} == {"sat", "unsat"}]
        unk = sum(1 for i in range(n) if got[i] in ("unknown", "timeout") or ref[i] == "unknown")
        print("  %-10s %s: %d queries, %d answered by both alike, %d unknown on one side, %d DISAGREE, %d error lines%s" % (
            name, os.path.basename(sc), len(ref), n - len(dis) - unk, unk, len(dis), len(errs), "" if len(got) == len(ref) else " (answers: %d)" % len(got)))
        for x in dis[:5]:
            print("     query #%d: z3-5.1 %s, %s %s" % (x[0], x[1], name, x[2]))
        for e in errs[:3]:
            print("     " + e[:200])
        tot["queries"] += n; tot["agree"] += n - len(dis) - unk; tot["other_unknown"] += unk; tot["disagree"] += len(dis)
shutil.rmtree(d, ignore_errors=True)
print(json.dumps(tot))
sys.exit(1 if tot["disagree"] else 0)
