#!/bin/sh
# thorough tier of the harnesses added or changed in the third session (development aid): one line each
run() { p=$1; h=$2; s=$(date +%s); ./check $p --tier thorough --strict --only $h > sweepn_${p}_$h.log 2>&1; rc=$?
  echo "$p $h exit=$rc $(( $(date +%s) - s ))s $(grep SUMMARY sweepn_${p}_$h.log | cut -c1-170)"; grep "^VIOLATION\|^INCONCLUSIVE" sweepn_${p}_$h.log | cut -c1-240 | head -4; }
run C10 H5-failing-rule-children-schedules; run C10 H1-rule-order
run C05 H2-scoping; run C05 H3-fresh-lists; run C14 H4-failing-groups; run C14 H3-nested; run C20 H2-tree-dir-spellings; run C20 H2-tree-repack; run C20 H2-tree
run C08 H6-comments; run C08 H5-format-files; run C03 H2-reeval; run C04 H2-loop-nest; run C04 H2-map-loop; run C04 H1-try-in-loop
run C06 H9-cycles; run C06 H2-builtins-argument-forms; run C06 H6-mutated-programs; run C06 H4-event-state; run C06 H1-binary-operators
run C16 H3-values-state-2; run C16 H3-values-state-4; run C15 H4-breakpoint-book; run C15 H5-console-deadlocks; run C15 H5-console-races; run C15 H1-transparent
run C02 H4-nested-wait; run C11 H3-ecal-report; run C11 H2-shared-names; run C11 H1-wildcard-layout; run C13 H1-two-parses-rt0; run C18 H3-separation-values; run C17 H1-paths-5; run C19 H1-adapter; run C09 H3-resize-seq
