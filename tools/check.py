#!/usr/bin/env python3
"""Driver: runs the gosym jobs of one property, replays counterexamples, applies the known-findings
list, writes /verif/evidence/<id>.json and prints VIOLATION / KNOWN-FINDING / INCONCLUSIVE lines.

usage: check.py <PROPERTY_ID> [--tier quick|thorough] [--strict] [--only <harness>] [--keep]
       check.py replay <cex.json>
"""
import json, os, subprocess, sys, time, shutil, glob

VERIF = os.path.dirname(os.path.dirname(os.path.abspath(__file__)))
REPO = os.environ.get("VERIF_REPO", "/repo")
sys.path.insert(0, os.path.join(VERIF, "tools"))
from specs import SPECS  # noqa: E402

ENV = dict(os.environ, GOFLAGS="-mod=mod", GOPROXY="off", GOSUMDB="off", GOTOOLCHAIN="local")
GOSYM = os.path.join(VERIF, "bin", "gosym")
MOD = "github.com/krotik/ecal"


def ensure_engine():
    src_m = max(os.path.getmtime(p) for p in glob.glob(os.path.join(VERIF, "engine", "**", "*.go"), recursive=True))
    if not os.path.exists(GOSYM) or os.path.getmtime(GOSYM) < src_m:
        os.makedirs(os.path.join(VERIF, "bin"), exist_ok=True)
        subprocess.check_call(["go", "build", "-o", GOSYM, "./cmd/gosym"], cwd=os.path.join(VERIF, "engine"), env=ENV)


def load_known():
    p = os.path.join(VERIF, "known_findings.json")
    if not os.path.exists(p):
        return []
    return json.load(open(p))["findings"]


def replay_cmd(path):
    d = os.path.dirname(path)
    sh = os.path.join(d, "replay.sh")
    r = subprocess.run(["/bin/sh", sh], env=ENV, stdout=subprocess.PIPE, stderr=subprocess.STDOUT, text=True)
    sys.stdout.write(r.stdout)
    out = r.stdout
    if "VERIF-ASSERT" in out or "panic:" in out or "fatal error:" in out:
        print("REPLAY: reproduced")
        return 1
    print("REPLAY: not reproduced")
    return 0


def fmt_model(m, limit=12):
    if not m:
        return {}
    keys = sorted(m.keys())
    return {k: m[k] for k in keys[:limit]}


def main():
    args = sys.argv[1:]
    if args and args[0] == "replay":
        sys.exit(replay_cmd(args[1]))
    pid = args[0]
    tier = os.environ.get("VERIF_TIER", "quick")
    strict = False
    only = None
    i = 1
    while i < len(args):
        if args[i] == "--tier":
            tier = args[i + 1]; i += 2
        elif args[i] == "--strict":
            strict = True; i += 1
        elif args[i] == "--only":
            only = args[i + 1]; i += 2
        else:
            i += 1
    if tier not in ("quick", "thorough"):
        tier = "quick"
    seed = int(os.environ.get("VERIF_SEED", "0") or 0)
    spec = SPECS[pid]
    ensure_engine()
    known = [k for k in load_known() if k["property"] == pid]
    active = [k["name"] for k in known if k.get("status") == "known"]
    t0 = time.time()
    sfx = os.environ.get("VERIF_SUFFIX", "")  # development only: separate work/replay/evidence files for runs against a scratch copy
    rdir = os.path.join(VERIF, "replays", pid + sfx)
    os.makedirs(rdir, exist_ok=True)
    wdir = os.path.join(VERIF, "work", pid + sfx)
    shutil.rmtree(wdir, ignore_errors=True)
    os.makedirs(wdir, exist_ok=True)

    results = []
    violations = []
    inconclusive = []
    known_hits = {}
    for h in spec["harnesses"]:
        cfg = h.get(tier)
        if cfg is None:
            continue
        if only and h["name"] != only:
            continue
        pkgrel = h["pkg"]
        overlay = {REPO + "/zzverif/zzverif.go": os.path.join(VERIF, "harness", "zzverif", "zzverif.go")}
        for f in h["files"]:
            overlay[REPO + "/" + pkgrel + "/zz_verif_" + os.path.basename(f)] = os.path.join(VERIF, "harness", f)
        for v, f in h.get("extra_overlay", {}).items():
            overlay[REPO + "/" + v] = os.path.join(VERIF, "harness", f)
        job = {
            "repo": REPO, "pkg": MOD + "/" + pkgrel, "fn": h["fn"], "overlay": overlay,
            "known": active, "replay": True, "replay_dir": rdir,
            "native_zz": os.path.join(VERIF, "harness", "zzverif_native", "zzverif.go"),
            "workers": int(os.environ.get("VERIF_WORKERS", "16")), "replay_max": 5,
        }
        job.update(cfg)
        jp = os.path.join(wdir, h["name"] + ".job.json")
        rp = os.path.join(wdir, h["name"] + ".result.json")
        json.dump(job, open(jp, "w"), indent=1)
        limit = cfg.get("wall_s", 0) + cfg.get("hard_extra_s", 900)
        try:
            pr = subprocess.run([GOSYM, "-job", jp, "-out", rp], env=ENV, timeout=limit if cfg.get("wall_s") else None,
                                stdout=subprocess.PIPE, stderr=subprocess.PIPE, text=True)
            if pr.returncode != 0 or not os.path.exists(rp):
                res = {"status": "engine-crash", "error": (pr.stderr or "")[-2000:], "fn": h["fn"]}
            else:
                res = json.load(open(rp))
        except subprocess.TimeoutExpired:
            res = {"status": "engine-timeout", "error": "hard limit %ds" % limit, "fn": h["fn"]}
        res["harness"] = h["name"]
        res["what"] = h.get("what", "")
        results.append(res)
        if res["status"] != "ok":
            inconclusive.append("%s: %s %s" % (h["name"], res["status"], (res.get("error") or "")[:300].replace("\n", " | ")))
            continue
        if res.get("truncated"):
            inconclusive.append("%s: exploration truncated by wall/path limit" % h["name"])
        for name, n in res.get("known_hits", {}).items():
            known_hits.setdefault(name, res.get("known_models", {}).get(name))
        for g in (res.get("groups") or []):
            desc = "%s: %s %s @ %s (x%d)" % (h["name"], g["kind"], g["msg"], g.get("where", ""), g["count"])
            if g["kind"] in ("assert", "panic", "unwind", "budget", "deadlock", "race") and g.get("replay", "").startswith("REPRODUCED"):
                violations.append((desc, g.get("replay_path", ""), g))
            else:
                inconclusive.append(desc + " -> " + (g.get("replay") or "not replayed"))
        need = h.get("reach", [])
        for lab in need:
            if res.get("reached", {}).get(lab, 0) == 0:
                inconclusive.append("%s: vacuous - reachability witness '%s' not reached" % (h["name"], lab))

    wall = time.time() - t0
    # ---- report ----
    kf_by_name = {k["name"]: k for k in known}
    for name in sorted(known_hits):
        k = kf_by_name.get(name, {})
        print("KNOWN-FINDING: property=%s %s: %s" % (pid, name, k.get("what", "")))
    for desc, path, g in violations:
        print("VIOLATION property=%s replay=%s" % (pid, path))
        print("  " + desc)
        print("  model: " + json.dumps(fmt_model((g.get("models") or [{}])[0])))
    for s in inconclusive:
        print("INCONCLUSIVE property=%s %s" % (pid, s))

    # ---- evidence ----
    tot = lambda k: sum(r.get(k, 0) for r in results if r.get("status") == "ok")
    q = {"sat": 0, "unsat": 0, "unknown": 0}
    funcs, intr, samples, reach = {}, {}, [], {}
    for r in results:
        if r.get("status") != "ok":
            continue
        for k in q:
            q[k] += r["queries"].get(k, 0)
        for f, n in r.get("functions", {}).items():
            if "zzverif" in f:
                continue
            funcs[f] = funcs.get(f, 0) + n
        for f, n in r.get("intrinsics", {}).items():
            intr[f] = intr.get(f, 0) + n
        for lab, n in r.get("reached", {}).items():
            reach[r["harness"] + ":" + lab] = n
        for s in (r.get("samples") or [])[:3]:
            samples.append({"harness": r["harness"], "reachable_path_model": fmt_model(s, 16)})
    for desc, path, g in violations:
        samples.append({"violation": desc, "replay": path, "model": fmt_model((g.get("models") or [{}])[0], 16)})
    for name, m in known_hits.items():
        samples.append({"known_finding": name, "model": fmt_model(m or {}, 16)})
    if not samples:
        samples.append({"note": "no path model recorded"})
    repo_funcs = sorted([f for f in funcs if "krotik/ecal" in f and "zz" not in f.split("/")[-1][:2]])
    evidence = {
        "property_id": pid, "tier": tier, "seed": seed, "level": "other",
        "coverage": {
            "explanation": spec["explanation"],
            "technique": "bounded symbolic execution of the real Go code (go/ssa of /repo's working tree, regenerated on this run) "
                         "with every branch, assertion, implicit panic and unwinding obligation decided by an SMT solver (z3 5.1 via SMT-LIB2 pipe); "
                         "counterexamples are replayed natively with go test -overlay before being reported",
            "evaluations": q["sat"] + q["unsat"] + q["unknown"],
            "distinct_nontrivial": tot("nontrivial_paths"),
            "rule": "evaluations = solver queries discharged on this run; distinct_nontrivial = distinct feasible execution paths "
                    "(each a distinct conjunction of branch decisions, witnessed satisfiable) that reached at least one "
                    "property assertion whose condition did not constant-fold",
            "samples": samples[:12],
            "obligations": tot("obligations"),
            "trivial_obligations": tot("trivial_obligations"),
            "paths": tot("paths"),
            "ssa_instructions_executed": tot("instrs"),
            "queries": q,
            "solver_s": round(sum(r.get("solver_s", 0) for r in results), 2),
            "functions_encoded_count": len(funcs),
            "functions_encoded_repo": repo_funcs[:400],
            "intrinsics_hit": sorted(intr.keys()),
            "reach_witnesses": reach,
            "harnesses": [{
                "name": r["harness"], "fn": r.get("fn"), "what": r.get("what"), "status": r["status"],
                "params": r.get("params"), "unwind": r.get("unwind"), "paths": r.get("paths"), "forks": r.get("forks"),
                "instrs": r.get("instrs"), "obligations": r.get("obligations"), "queries": r.get("queries"),
                "solver_s": r.get("solver_s"), "wall_s": r.get("wall_s"), "load_s": r.get("load_s"),
                "truncated": r.get("truncated"), "overapprox": r.get("overapprox"), "path_ends": r.get("path_ends"),
                "racy_sites": len(r.get("racy_sites") or []), "pass1_paths": r.get("pass1_paths"),
                "findings": [{"kind": g["kind"], "msg": g["msg"], "where": g.get("where"), "count": g["count"], "replay": g.get("replay")}
                             for g in (r.get("groups") or [])],
                "error": r.get("error"),
            } for r in results],
            "bounds": spec.get("bounds", {}).get(tier, spec.get("bounds", {})),
            "outside_claim": spec.get("outside", []),
            "known_findings_hit": sorted(known_hits.keys()),
            "inconclusive": inconclusive,
            "exhaustive": False,
        },
        "assumptions": spec.get("assumptions", []),
        "wall_s": round(wall, 2),
        "violations": len(violations),
    }
    os.makedirs(os.path.join(VERIF, "evidence"), exist_ok=True)
    if sfx:
        os.makedirs(os.path.join(VERIF, "work", "evidence"), exist_ok=True)
        json.dump(evidence, open(os.path.join(VERIF, "work", "evidence", pid + sfx + ".json"), "w"), indent=1)
    else:
        json.dump(evidence, open(os.path.join(VERIF, "evidence", pid + ".json"), "w"), indent=1)
    print("SUMMARY property=%s tier=%s harnesses=%d paths=%d queries=%d violations=%d known=%d inconclusive=%d wall=%.1fs" % (
        pid, tier, len(results), tot("paths"), q["sat"] + q["unsat"] + q["unknown"], len(violations), len(known_hits), len(inconclusive), wall))
    if violations:
        sys.exit(1)
    if strict and inconclusive:
        sys.exit(2)
    sys.exit(0)


if __name__ == "__main__":
    main()
