#!/bin/sh
# usage: seed_eval2.sh <seed-id> <property> [check args...]
# Same as seed_eval.sh but against a scratch worktree of /repo's HEAD (/tmp/seedeval-<id>) through VERIF_REPO, so that
# several seeds can be evaluated while /repo stays untouched; work and replay directories are per seed.
ID=$1; PROP=$2; shift 2
P=/verif/seeded/$ID/patch.diff; [ -f $P ] || P=/tmp/seed/out/$ID/patch.diff
W=/tmp/seedeval-$ID
git -C /repo worktree remove --force $W 2>/dev/null
git -C /repo worktree add -q --detach $W HEAD || exit 2
git -C $W apply $P || { git -C /repo worktree remove --force $W; exit 2; }
VERIF_REPO=$W VERIF_SUFFIX=-$ID /verif/check $PROP "$@" 2>&1 | grep -v "^KNOWN-FINDING" | cut -c1-300 | tail -14
git -C /repo worktree remove --force $W
