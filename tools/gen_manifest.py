#!/usr/bin/env python3
"""Regenerates MANIFEST.json from tools/specs.py + tools/manifest_meta.py."""
import json, os, sys
V = os.path.dirname(os.path.dirname(os.path.abspath(__file__)))
sys.path.insert(0, os.path.join(V, "tools"))
from specs import SPECS
from manifest_meta import NOT_APPLICABLE, NOTES

checks = []
for pid in sorted(SPECS):
    s = SPECS[pid]
    checks.append({
        "property_id": pid,
        "quick_cmd": "./check %s --tier quick" % pid,
        "thorough_cmd": "./check %s --tier thorough" % pid,
        "evidence_file": "/verif/evidence/%s.json" % pid,
        "replay_cmd_template": "./check replay {path}",
        "engine": "gosym",
        "level_claimed": {"category": "other", "text": s["level_text"], "design_ref": s.get("design_ref", "DESIGN.md section 5 " + pid)},
        "level_note": s["level_note"],
        "technique": s.get("technique", "bounded symbolic execution of the real code over go/ssa, SMT-decided (z3), native replay of counterexamples"),
    })
m = {
    "version": 1,
    "setup_cmd": "cd /verif/engine && GOFLAGS=-mod=mod GOPROXY=off GOSUMDB=off GOTOOLCHAIN=local go build -o /verif/bin/gosym ./cmd/gosym && go build -o /verif/bin/scrape ./cmd/scrape",
    "hooks": {
        "guard": "none (no source hooks: harnesses and replay instrumentation are injected through go/packages and `go test -overlay` overlays generated at check time; /repo is never modified)",
        "enable": "overlay files /repo/zzverif/zzverif.go and /repo/<pkg>/zz_verif_*.go supplied by ./check (virtual, not written to /repo)",
        "baseline_off_cmd": "cd /repo && GOFLAGS=-mod=mod GOPROXY=off go test -vet=off -count=1 -timeout 25m ./...",
        "source_commits": [],
        "add_only": True,
    },
    "engines": [{
        "name": "gosym", "path": "/verif/engine",
        "serves_properties": sorted(SPECS),
        "kind_free_text": "path-forking symbolic executor over golang.org/x/tools/go/ssa (v0.29.0) written for this task; SMT-LIB2 to z3 5.1 (z3-new -in), hash-consed terms, model-cached feasibility, 16 workers; native replay via go test -overlay",
    }],
    "checks": checks,
    "notes": NOTES,
    "not_applicable": [{"property_id": k, "reason": v} for k, v in sorted(NOT_APPLICABLE.items()) if k not in SPECS],
}
json.dump(m, open(os.path.join(V, "MANIFEST.json"), "w"), indent=1)
print("wrote MANIFEST.json with", len(checks), "checks,", len(m["not_applicable"]), "not applicable")
