#!/bin/sh
# usage: seed_eval.sh <seed-id> <property> [check args...]  : applies the seed patch to /repo, runs the check, undoes it
ID=$1; PROP=$2; shift 2
P=/verif/seeded/$ID/patch.diff; [ -f $P ] || P=/tmp/seed/out/$ID/patch.diff
git -C /repo apply $P || exit 2
/verif/check $PROP "$@" 2>&1 | grep -v "^KNOWN-FINDING" | cut -c1-260 | tail -12
git -C /repo checkout -- . ; git -C /repo status --short | head -3
