#!/usr/bin/env python3
"""seed_store.py <seed-id> <property> <demo pkg dir> <caught_by> <status> <needs...>  : copies a confirmed seed into /verif/seeded/<id>/"""
import json, os, shutil, sys
sid, prop, pkg, caught, status = sys.argv[1:6]
needs = " ".join(sys.argv[6:])
src = "/tmp/seed/out/%s" % sid
dst = "/verif/seeded/%s" % sid
os.makedirs(dst, exist_ok=True)
for f in ("patch.diff", "demo_test.go", "notes.md"):
    if os.path.exists(os.path.join(src, f)):
        shutil.copy(os.path.join(src, f), os.path.join(dst, f))
meta = {
    "seed": sid, "breaks_property": prop,
    "source": "independent sub-agent given only the property text and a scratch git worktree of /repo",
    "needs_to_manifest": needs,
    "demonstration": {"file": "demo_test.go", "package_dir": pkg,
                      "confirmed": "tools/seed_verify.sh: demo passes without the patch, fails with it, whole suite passes with it (scratch worktree /tmp/seedv)"},
    "check_result": {"caught_by": caught, "status": status,
                     "how_run": "tools/seed_eval.sh: git -C /repo apply patch.diff; ./check %s ...; git -C /repo checkout -- ." % prop},
}
json.dump(meta, open(os.path.join(dst, "meta.json"), "w"), indent=1)
print("stored", dst)
