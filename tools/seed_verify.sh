#!/bin/sh
# usage: seed_verify.sh <ID> <pkgdir> <testname-regex>   (scratch worktree /tmp/seedv, outputs /tmp/seed/out/<ID>)
# Confirms: demo fails with the patch, passes without; full suite passes with the patch.
export GOFLAGS=-mod=mod GOPROXY=off GOSUMDB=off GOTOOLCHAIN=local
ID=$1; PKG=$2; RUN=$3; OUT=/tmp/seed/out/$ID
cd /tmp/seedv || exit 2
git checkout -q -- . ; git clean -fdq
cp $OUT/demo_test.go $PKG/zz_seed_demo_test.go
echo "--- without patch (must pass)"; go test -vet=off -count=1 -run "$RUN" ./$PKG/ 2>&1 | grep -v "Not tested" | tail -3
git apply $OUT/patch.diff || { echo "PATCH DOES NOT APPLY"; exit 2; }
echo "--- with patch (must fail)"; timeout 300 go test -vet=off -count=1 -run "$RUN" ./$PKG/ 2>&1 | grep -v "Not tested" | tail -6
rm $PKG/zz_seed_demo_test.go
echo "--- full suite with patch (must pass)"; go test -vet=off -count=1 ./... 2>&1 | grep -v "no test files\|Not tested" | grep -v "^ok" | tail -5; echo "(suite done)"
git checkout -q -- . ; git clean -fdq
