"""Per-property job specifications for tools/check.py."""

SPECS = {}

SPECS["C18"] = {
    "level_text": "bounded: for ALL inputs of up to the stated number of bytes the solver shows no token with a wrong line/column exists "
                  "(other than inputs matching the listed known finding); real lexer code incl. goroutine/channel executed symbolically",
    "level_note": "trusts go/ssa lowering, the gosym executor and its intrinsics (unicode tables, regexp NFA unrolling), z3; "
                  "ASCII bytes only in the whole-input harness; inputs longer than the bound are outside the claim",
    "explanation": "Every token produced by the real lexer (LexToList incl. its goroutine and channel) for an arbitrary "
                   "input of N symbolic bytes carries the line/column recomputed from its byte offset; decided per path by the solver.",
    "harnesses": [
        {"name": "H1-whole-input-%d" % n, "pkg": "parser", "files": ["parser/c18.go"], "fn": "VerifC18LexPositions",
         "what": "all ASCII inputs of exactly %d bytes" % n, "reach": ["lexed"],
         "quick": {"params": {"N": n}, "unwind": 16} if n <= 3 else None,
         "thorough": {"params": {"N": n}, "unwind": 16}}
        for n in (1, 2, 3, 4)
    ],
    "assumptions": ["ASCII bytes (<0x80)"],
    "outside": ["inputs longer than the stated byte bound"],
}
