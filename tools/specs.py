"""Per-property job specifications for tools/check.py."""

SPECS = {}

SPECS["C18"] = {
    "level_text": "bounded: for ALL inputs of up to the stated number of bytes the solver shows no token with a wrong line/column exists "
                  "(other than inputs matching the listed known finding); real lexer code incl. goroutine/channel executed symbolically",
    "level_note": "trusts go/ssa lowering, the gosym executor and its intrinsics (unicode tables, regexp NFA unrolling), z3; "
                  "ASCII bytes only in the whole-input harness; inputs longer than the bound are outside the claim",
    "explanation": "Every token produced by the real lexer (LexToList incl. its goroutine and channel) for an arbitrary "
                   "input of N symbolic bytes carries the line/column recomputed from its byte offset; decided per path by the solver.",
    "harnesses": [
        {"name": "H1-whole-input-%d" % n, "pkg": "parser", "files": ["parser/c18.go"], "fn": "VerifC18LexPositions",
         "what": "all ASCII inputs of exactly %d bytes" % n, "reach": ["lexed"],
         "quick": {"params": {"N": n}, "unwind": 16} if n <= 3 else None,
         "thorough": {"params": {"N": n}, "unwind": 16}}
        for n in (1, 2, 3, 4)
    ] + [
        {"name": "H1-alphabet-%d" % n, "pkg": "parser", "files": ["parser/c18.go"], "fn": "VerifC18LexPositions",
         "what": "all inputs of exactly %d bytes over {a,1,space,newline,#,/,*,quote,r,backslash} (block comments, raw multi-line strings)" % n, "reach": ["lexed"],
         "quick": {"params": {"N": n, "ALPHA": 1}, "unwind": 20, "wall_s": 600} if n <= 4 else None,
         "thorough": {"params": {"N": n, "ALPHA": 1}, "unwind": 20, "wall_s": 3000}}
        for n in (4, 5, 6)
    ] + [
        {"name": "H3-separation-and-error-position", "pkg": "parser", "files": ["parser/c18.go"], "fn": "VerifC18Separation",
         "what": "two statements separated by 12 comment/whitespace arrangements; planted offending token after a second arrangement", "reach": ["parsed"],
         "quick": {"unwind": 40, "wall_s": 600}, "thorough": {"unwind": 40, "wall_s": 600}},
        {"name": "H3-separation-values", "pkg": "parser", "files": ["parser/c18.go"], "fn": "VerifC18Separation",
         "what": "same with the first statement's value ranging over 8 literals (quoted strings, raw strings spanning lines, backslash at the end of a line inside a raw string); every token position checked", "reach": ["parsed"],
         "quick": {"params": {"VALUES": 1}, "unwind": 60, "wall_s": 900}, "thorough": {"params": {"VALUES": 1}, "unwind": 60, "wall_s": 900}},
    ],
    "assumptions": ["ASCII bytes (<0x80)"],
    "outside": ["inputs longer than the stated byte bound"],
}

SPECS["C10"] = {
    "explanation": "HighestPriority report vs. reference over arbitrary priorities/finish orders and arbitrary operation histories; "
                   "rule execution order / fail-on-first-error over arbitrary priorities and failing flags; all through the exported engine API. Since the third session: the cascade under schedules with optional child events (report read at the instant the wait returns), rule names in any order. Line and column are asserted separately (the listed known finding covers the column only); literals incl. raw strings spanning lines as statement values; CRLF line comments.",
    "level_text": "bounded: for all priority assignments, failing flags, finish orders and operation histories within the stated sizes, "
                  "the solver finds no deviation from the reference (except listed known findings)",
    "level_note": "trusts go/ssa, gosym, z3; sizes bounded (N monitors, K finishes, L history steps, R rules); one goroutine",
    "harnesses": [
        {"name": "H4-heap-N%d" % n, "pkg": "engine", "files": ["engine/c10.go"], "fn": "VerifC10HighestPriorityHeap",
         "what": "%d activations with symbolic priorities, then %d finishes of symbolic members" % (n, k), "reach": ["finished"],
         "quick": {"params": {"N": n, "K": k}, "unwind": 40, "wall_s": 300} if n <= 4 else None,
         "thorough": {"params": {"N": n, "K": k}, "unwind": 40, "wall_s": 1200}}
        for (n, k) in ((4, 3), (5, 2))
    ] + [
        {"name": "H4-validheap-N%d" % n, "pkg": "engine", "files": ["engine/c10.go"], "fn": "VerifC10HighestPriorityHeap",
         "what": "arbitrary valid heap of %d distinct priorities (array order), then %d finishes of symbolic members" % (n, k), "reach": ["finished"],
         "quick": {"params": {"N": n, "K": k, "HEAPORDER": 1}, "unwind": 40, "wall_s": 300},
         "thorough": {"params": {"N": n, "K": k + 1, "HEAPORDER": 1}, "unwind": 40, "wall_s": 1200}}
        for (n, k) in ((6, 2), (7, 2))
    ] + [
        {"name": "H3-history", "pkg": "engine", "files": ["engine/c10.go"], "fn": "VerifC10HighestPriorityHistory",
         "what": "arbitrary histories of new/Activate/Skip/Finish over 3 monitors", "reach": ["step"],
         "quick": {"params": {"L": 6}, "unwind": 40, "wall_s": 600}, "thorough": {"params": {"L": 8}, "unwind": 40, "wall_s": 3000}},
        {"name": "H2-dequeue-order", "pkg": "engine", "files": ["engine/c10.go"], "fn": "VerifC10DequeueOrder",
         "what": "arbitrary Push/Pop sequences on the task queue, 2 cascades, symbolic priorities, rand.Intn symbolic", "reach": ["pop"],
         "quick": {"params": {"S": 5}, "unwind": 40, "wall_s": 300}, "thorough": {"params": {"S": 7}, "unwind": 40, "wall_s": 1500}},
        {"name": "H5-failing-rule-children", "pkg": "engine", "files": ["engine/c10.go"], "fn": "VerifC10FailingRuleChildren",
         "what": "running 1-worker processor: 3 rules with symbolic priorities each adding a child event, symbolic failing rule, both fail-on-first-error settings", "reach": ["cascade-done"],
         "quick": {"unwind": 60, "wall_s": 600}, "thorough": {"unwind": 60, "wall_s": 1200}},
        {"name": "H5-failing-rule-children-schedules", "pkg": "engine", "files": ["engine/c10.go"], "fn": "VerifC10FailingRuleChildren",
         "what": "same under all schedules with <= 1 pre-emption (worker vs. the waiting goroutine reading the report when the wait returns)", "reach": ["cascade-done"],
         "quick": {"params": {"P": 1}, "unwind": 60, "wall_s": 900}, "thorough": {"params": {"P": 2}, "unwind": 60, "wall_s": 3000}},
        {"name": "H1-rule-order", "pkg": "engine", "files": ["engine/c10.go"], "fn": "VerifC10RuleOrder",
         "what": "R rules with symbolic priorities and failing flags, both settings of fail-on-first-error", "reach": ["processed"],
         "quick": {"params": {"R": 3}, "unwind": 40}, "thorough": {"params": {"R": 4}, "unwind": 60}},
    ],
    "assumptions": ["priorities in 0..15 (0..7 in histories)"],
    "outside": ["more monitors/rules than the bounds", "negative priorities"],
}

SPECS["C14"] = {
    "explanation": "The real stringValueRuntime.Eval (incl. the nested real parse+validate+eval of every group) is executed on a literal of N "
                   "symbolic bytes over {'{','}','a'} with raw/quoted symbolic; asserted: no panic, terminates, raw untouched, result equals a "
                   "one-pass reference (which evaluates each own group of the literal once with the same real evaluator and never rescans). Since the third session: segment-level literals, a literal whose groups evaluate the same literal again (recursion), groups that fail at evaluation time (inline error marker).",
    "level_text": "bounded: for ALL literals up to the stated length over the alphabet the solver finds no panic, non-termination or deviation from the one-pass result",
    "level_note": "trusts go/ssa, gosym (string intrinsics Index/Replace/Sprintf modelled byte-exactly), z3; alphabet and length bounded; variable a holds '{{a}}'",
    "harnesses": [
        {"name": "H1-literal-%d" % n, "pkg": "interpreter", "files": ["interpreter/c14.go", "interpreter/c07.go", "interpreter/common.go"], "fn": "VerifC14Interpolation",
         "what": "all literals of exactly %d bytes over {,},a; raw and quoted" % n, "reach": ["before-eval", "after-eval"],
         "quick": {"params": {"N": n}, "unwind": 30, "wall_s": 300, "max_steps": 3000000} if n <= 6 else None,
         "thorough": {"params": {"N": n}, "unwind": 30, "wall_s": 1500, "max_steps": 3000000}}
        for n in (2, 4, 5, 6, 8, 9)
    ] + [
        {"name": "H1-literal-wide-%d" % n, "pkg": "interpreter", "files": ["interpreter/c14.go", "interpreter/c07.go", "interpreter/common.go"], "fn": "VerifC14Interpolation",
         "what": "all literals of exactly %d bytes over {,},a,space,+" % n, "reach": ["before-eval", "after-eval"],
         "quick": {"params": {"N": n, "ALPHA": 1}, "unwind": 30, "wall_s": 300, "max_steps": 3000000} if n <= 5 else None,
         "thorough": {"params": {"N": n, "ALPHA": 1}, "unwind": 30, "wall_s": 1500, "max_steps": 3000000}}
        for n in (5, 7)
    ] + [
        {"name": "H2-segments-%d" % k, "pkg": "interpreter", "files": ["interpreter/c14.go", "interpreter/c07.go", "interpreter/common.go"], "fn": "VerifC14Segments",
         "what": "literals of %d segments out of 7 (text, {{a}}, {{b}}, {{c()}}, stray markers) x a, b, c() holding group-like text (7x7x4): one-pass result, c() called once per own group" % k,
         "reach": ["before-eval", "after-eval"],
         "quick": {"params": {"K": k}, "unwind": 30, "wall_s": 600, "max_steps": 3000000} if k <= 3 else None,
         "thorough": {"params": {"K": k}, "unwind": 30, "wall_s": 3000, "max_steps": 3000000}}
        for k in (2, 3, 4)
    ]
    + [
        {"name": "H4-failing-groups", "pkg": "interpreter", "files": ["interpreter/c14.go", "interpreter/c07.go", "interpreter/common.go"], "fn": "VerifC14FailingGroups",
         "what": "two groups out of 7 (4 failing at run time, 1 at parse time, 2 succeeding): value text or inline error marker per group", "reach": ["before-eval", "after-eval"],
         "quick": {"unwind": 60, "wall_s": 600}, "thorough": {"unwind": 60, "wall_s": 600}},
        {"name": "H3-nested", "pkg": "interpreter", "files": ["interpreter/c14.go", "interpreter/c07.go", "interpreter/common.go"], "fn": "VerifC14Nested",
         "what": "a literal whose groups evaluate the same literal again (recursive function, depth 0..3) and other literals", "reach": ["before-eval", "after-eval"],
         "quick": {"params": {"DEPTH": 3}, "unwind": 60, "wall_s": 600, "max_steps": 5000000}, "thorough": {"params": {"DEPTH": 4}, "unwind": 60, "wall_s": 1500, "max_steps": 20000000}},
    ],
    "assumptions": ["alphabet {'{','}','a'}", "variable a bound to the string \"{{a}}\""],
    "outside": ["longer literals", "other bytes / escape sequences (lexer-level unquoting is covered under C08/C18 harnesses)"],
}

_C06 = ["interpreter/common.go", "interpreter/c06.go"]
SPECS["C06"] = {
    "explanation": "Every implicit Go panic site (nil dereference, index/slice bounds, integer division by zero, failed type assertion, unhashable map key, "
                   "comparison of uncomparable dynamic types, explicit panic/assert) reached while the real parser+interpreter evaluate operator, built-in and "
                   "container-access programs over a symbolic value universe is an SMT obligation; full-width float64 operands. Since the third session: built-in arguments written as index access / map access / call result, containers that contain themselves handed to every consumer of values, every mutated program the parser accepts is evaluated, sink bodies failing with plain Go errors, value universe with the error-object kinds (Go []string trace).",
    "level_text": "bounded: for all operand kinds/values in the stated universe no panic is feasible on any path (except listed known findings)",
    "level_note": "trusts go/ssa, gosym, z3; universe: null,bool,number(any float64),1-byte string,lists,map,function; programs are templates",
    "harnesses": [
        {"name": "H1-binary-operators", "pkg": "interpreter", "files": _C06, "fn": "VerifC06BinaryOperators",
         "what": "x OP y for 19 operators x 9x9 operand kinds, symbolic contents", "reach": ["before-eval", "after-eval"],
         "quick": {"unwind": 30, "wall_s": 600}, "thorough": {"unwind": 30, "wall_s": 1500}},
        {"name": "H2-builtins", "pkg": "interpreter", "files": _C06, "fn": "VerifC06Builtins",
         "what": "10 built-ins x 0..2 (quick) / 0..3 (thorough) arguments x 9 kinds each", "reach": ["before-eval", "after-eval"],
         "quick": {"params": {"MAXARGS": 2}, "unwind": 30, "wall_s": 600}, "thorough": {"params": {"MAXARGS": 3}, "unwind": 30, "wall_s": 2400}},
        {"name": "H2-add-with-index", "pkg": "interpreter", "files": _C06, "fn": "VerifC06Builtins",
         "what": "add(list, value, index) with all kinds", "reach": ["before-eval", "after-eval"],
         "quick": {"params": {"MAXARGS": 3, "ONLY": 5, "ARGC": 3}, "unwind": 30, "wall_s": 600}, "thorough": None},
        {"name": "H3-container-access", "pkg": "interpreter", "files": _C06, "fn": "VerifC06ContainerAccess",
         "what": "9 access forms x 10 containers x index of 9 kinds (numbers full-width)", "reach": ["before-eval", "after-eval"],
         "quick": {"unwind": 30, "wall_s": 600}, "thorough": {"unwind": 30, "wall_s": 1500}},
        {"name": "H3-container-access-smallint", "pkg": "interpreter", "files": _C06, "fn": "VerifC06ContainerAccess",
         "what": "same, numeric index constrained to an integer in [-99,99] so that its decimal round trip is solved exactly", "reach": ["before-eval", "after-eval"],
         "quick": {"params": {"SMALLINT": 1}, "unwind": 30, "wall_s": 600}, "thorough": {"params": {"SMALLINT": 1}, "unwind": 30, "wall_s": 1500}},
        {"name": "H4-sink-attributes", "pkg": "interpreter", "files": _C06, "fn": "VerifC06SinkAttributes",
         "what": "sink declaration with one attribute of arbitrary kind (5 attributes x 9 kinds)", "reach": ["before-eval", "after-eval", "accepted", "rejected"],
         "quick": {"unwind": 30, "wall_s": 600}, "thorough": {"unwind": 30, "wall_s": 600}},
        {"name": "H4-event-state", "pkg": "interpreter", "files": _C06, "fn": "VerifC06EventState",
         "what": "event state value of 9 kinds against 4 state-pattern kinds, processed by a 1-worker processor", "reach": ["declared", "before-event", "after-event"],
         "quick": {"unwind": 30, "wall_s": 600}, "thorough": {"unwind": 30, "wall_s": 600}},
        {"name": "H5-catchable-in-try", "pkg": "interpreter", "files": _C06, "fn": "VerifC06BinaryOperators",
         "what": "same operator space inside try/except: the statement completes without an escaping error", "reach": ["before-eval", "after-eval"],
         "quick": {"params": {"TRY": 1}, "unwind": 30, "wall_s": 600}, "thorough": {"params": {"TRY": 1}, "unwind": 30, "wall_s": 1500}},
        {"name": "H7-statements", "pkg": "interpreter", "files": _C06, "fn": "VerifC06Statements",
         "what": "28 statement templates x 13 value kinds in the position that expects a particular kind", "reach": ["before-eval", "after-eval"],
         "quick": {"unwind": 30, "wall_s": 600, "max_steps": 2000000}, "thorough": {"unwind": 30, "wall_s": 1500, "max_steps": 2000000}},
        {"name": "H2-builtins-argument-forms", "pkg": "interpreter", "files": _C06, "fn": "VerifC06Builtins",
         "what": "10 built-ins x 0..2 arguments x 9 kinds x 4 ways of writing the argument (identifier, index access, map access, call result)", "reach": ["before-eval", "after-eval"],
         "quick": {"params": {"MAXARGS": 1, "FORMS": 1}, "unwind": 30, "wall_s": 600}, "thorough": {"params": {"MAXARGS": 2, "FORMS": 1}, "unwind": 30, "wall_s": 2400}},
        {"name": "H9-cycles", "pkg": "interpreter", "files": _C06, "fn": "VerifC06Cycles",
         "what": "4 ways of making a container contain itself x 12 consumers of values (log, ==, interpolation, built-ins, loops, error data)", "reach": ["before-eval", "after-eval"],
         "quick": {"unwind": 30, "wall_s": 600, "max_steps": 3000000}, "thorough": {"unwind": 30, "wall_s": 600, "max_steps": 3000000}},
        {"name": "H6-mutated-programs", "pkg": "interpreter", "files": ["interpreter/common.go", "interpreter/c07.go"], "fn": "VerifC07Mutations",
         "what": "whatever the parser accepts evaluates without a panic: the 7 loop-free base programs of C07 (container literals nested in each other, calls, index access, sink with statematch) with one symbolic token mutation are parsed, validated and evaluated", "reach": ["parsed", "tree", "evaluated"],
         "quick": {"params": {"MUT": 1, "T": 38, "EVAL": 1}, "unwind": 40, "wall_s": 900, "max_steps": 3000000},
         "thorough": {"params": {"MUT": 2, "T": 12, "EVAL": 1}, "unwind": 40, "wall_s": 3000, "max_steps": 3000000}},
        {"name": "H1-prefix-operators", "pkg": "interpreter", "files": _C06, "fn": "VerifC06PrefixOperators",
         "what": "-x, +x, not x for 9 operand kinds", "reach": ["before-eval", "after-eval"],
         "quick": {"unwind": 30, "wall_s": 300}, "thorough": {"unwind": 30, "wall_s": 600}},
        {"name": "H8-sink-body", "pkg": "interpreter", "files": _C06, "fn": "VerifC06SinkBody",
         "what": "20 sink bodies (plain Go errors, runtime errors, return, raise) x 9 value kinds from the event state, through ECAL addEventAndWait in try; errors read and printed; a later event still processed",
         "reach": ["before-eval", "after-eval"],
         "quick": {"unwind": 30, "wall_s": 600, "max_steps": 3000000}, "thorough": {"unwind": 30, "wall_s": 1500, "max_steps": 3000000}},
        {"name": "H8-sink-body-nested", "pkg": "interpreter", "files": _C06, "fn": "VerifC06SinkBody",
         "what": "same with addEventAndWait called from inside another sink (pool worker), 2 workers", "reach": ["before-eval", "after-eval"],
         "quick": {"params": {"NESTED": 1, "WORKERS": 2}, "unwind": 30, "wall_s": 600, "max_steps": 3000000},
         "thorough": {"params": {"NESTED": 1, "WORKERS": 2}, "unwind": 30, "wall_s": 1500, "max_steps": 3000000}},
    ],
    "assumptions": ["strings of 1 symbolic byte; lists/maps of the listed shapes"],
    "outside": ["unbounded recursion", "stdlib functions via the reflection bridge (C19)", "sleep/cron/pulse/now/rand builtins"],
}

SPECS["C09"] = {
    "explanation": "Real ThreadPool code (workers as goroutines, sync.Mutex/Cond modelled by the executor's scheduler) with every scheduling decision at a "
                   "visible operation a symbolic variable bounded by a pre-emption budget; terminal states are checked for every task having run exactly once. Since the third session: sequences of worker-count requests with busy workers and a backlog of queued tasks, tasks that wait for other queued tasks.",
    "level_text": "bounded: all schedules with <= P pre-emptions for W workers and M tasks; a terminal state with a queued task and all workers waiting is the lost wake-up",
    "level_note": "trusts go/ssa, gosym's model of sync.Mutex/Cond/WaitGroup/time.Sleep (fair yield), sequentially consistent memory, z3",
    "harnesses": [
        {"name": "H1-no-lost-task-W%dM%d" % (w, m), "pkg": "engine/pool", "files": ["pool/c09.go"], "fn": "VerifC09NoLostTask",
         "what": "%d worker(s), %d task(s), then no further call" % (w, m), "reach": ["quiescent"],
         "quick": {"params": {"W": w, "M": m, "P": 2}, "unwind": 30, "wall_s": 300} if w * m <= 2 else None,
         "thorough": {"params": {"W": w, "M": m, "P": 3}, "unwind": 30, "wall_s": 1500}}
        for (w, m) in ((1, 1), (1, 2), (2, 1), (2, 2))
    ] + [
        {"name": "H2-waitall", "pkg": "engine/pool", "files": ["pool/c09.go"], "fn": "VerifC09WaitJoin",
         "what": "WaitAll after 2 tasks", "reach": ["waited"],
         "quick": {"params": {"W": 1, "M": 2, "P": 2, "JOIN": 0}, "unwind": 30, "wall_s": 300},
         "thorough": {"params": {"W": 2, "M": 2, "P": 2, "JOIN": 0}, "unwind": 30, "wall_s": 1500}},
        {"name": "H2-joinall", "pkg": "engine/pool", "files": ["pool/c09.go"], "fn": "VerifC09WaitJoin",
         "what": "JoinAll after 2 tasks", "reach": ["joined"],
         "quick": {"params": {"W": 1, "M": 2, "P": 2, "JOIN": 1}, "unwind": 30, "wall_s": 300},
         "thorough": {"params": {"W": 2, "M": 2, "P": 2, "JOIN": 1}, "unwind": 30, "wall_s": 1500}},
        {"name": "H3-resize", "pkg": "engine/pool", "files": ["pool/c09.go"], "fn": "VerifC09Resize",
         "what": "SetWorkerCount(a) then (b, wait) with a,b in 0..2 while a task arrives", "reach": ["resized"],
         "quick": {"params": {"P": 1}, "unwind": 30, "wall_s": 300}, "thorough": {"params": {"P": 2}, "unwind": 30, "wall_s": 1500}},
        {"name": "H1-dependent-tasks", "pkg": "engine/pool", "files": ["pool/c09.go"], "fn": "VerifC09Dependent",
         "what": "N tasks waiting for a gate and one task opening it, added in a symbolic order to N+1 workers, then no further call: every task is started by an idle worker and completes", "reach": ["quiescent"],
         "quick": {"params": {"N": 1, "P": 2}, "unwind": 30, "wall_s": 300},
         "thorough": {"params": {"N": 2, "P": 2}, "unwind": 30, "wall_s": 1500}},
        {"name": "H3-resize-seq", "pkg": "engine/pool", "files": ["pool/c09.go"], "fn": "VerifC09ResizeSeq",
         "what": "a in 1..2 (thorough 1..3) workers, 0..a of them busy with gated tasks plus a backlog of up to 2 queued tasks, then SetWorkerCount(b), SetWorkerCount(c) with b,c symbolic while the gate opens: the pool settles at c workers", "reach": ["settled"],
         "quick": {"params": {"MAXW": 2, "P": 1}, "unwind": 30, "wall_s": 600},
         "thorough": {"params": {"MAXW": 3, "P": 1}, "unwind": 30, "wall_s": 3000}},
        {"name": "H4-rounds", "pkg": "engine/pool", "files": ["pool/c09.go"], "fn": "VerifC09Rounds",
         "what": "2 rounds of AddTask+WaitAll on one worker (workers woken by an earlier WaitAll broadcast race the next submission)", "reach": ["rounds-done"],
         "quick": {"params": {"W": 1, "R": 2, "P": 3}, "unwind": 30, "wall_s": 600},
         "thorough": {"params": {"W": 1, "R": 2, "P": 4}, "unwind": 30, "wall_s": 3000}},
        {"name": "H4-rounds-W2", "pkg": "engine/pool", "files": ["pool/c09.go"], "fn": "VerifC09Rounds",
         "what": "2 rounds of AddTask+WaitAll on two workers", "reach": ["rounds-done"],
         "quick": None,
         "thorough": {"params": {"W": 2, "R": 2, "P": 2}, "unwind": 30, "wall_s": 3000}},
    ],
    "assumptions": ["pre-emption bound P", "fair-yield rule for time.Sleep polling loops", "sequential consistency"],
    "outside": ["more workers/tasks/pre-emptions than stated", "real-time behaviour of the Go scheduler"],
}

SPECS["C02"] = {
    "explanation": "Real processor, task queue, monitors, event pump and thread pool; the cascade shape (children per action, kinds incl. non-triggering, "
                   "priorities, failing flags) is symbolic; AddEventAndWait must return, and at return every action of the cascade ran once, every monitor is "
                   "finished, the finish handler ran once and AllErrors() holds exactly the failing (event, rule) pairs of this cascade. With P>0 scheduling "
                   "decisions are symbolic variables under a pre-emption budget; a deadlock verdict is 'wait never returns'.",
    "level_text": "bounded: all cascade shapes up to depth/size bounds x all failing-flag assignments; sequential (1 worker, deterministic) and all schedules with <= P pre-emptions",
    "level_note": "trusts go/ssa, gosym's sync/scheduler model, z3; cascades of depth <= 2, <= 5 events, <= 2 workers, <= 2 pre-emptions",
    "harnesses": [
        {"name": "H1-cascade-sequential", "pkg": "engine", "files": ["engine/c02.go"], "fn": "VerifC02Cascade",
         "what": "1 worker, deterministic schedule, depth<=2, <=5 events", "reach": ["returned"],
         "quick": {"params": {"WORKERS": 1, "DEPTH": 2, "MAXEVS": 4, "P": 0}, "unwind": 40, "wall_s": 300},
         "thorough": {"params": {"WORKERS": 1, "DEPTH": 2, "MAXEVS": 5, "P": 0}, "unwind": 40, "wall_s": 1500}},
        {"name": "H2-cascade-schedules", "pkg": "engine", "files": ["engine/c02.go"], "fn": "VerifC02Cascade",
         "what": "2 workers, all schedules with <=1 (quick) / <=2 (thorough) pre-emptions, depth 1, <=3 events", "reach": ["returned"],
         "quick": {"params": {"WORKERS": 2, "DEPTH": 1, "MAXEVS": 2, "P": 1}, "two_pass": True, "pass1_preempt": 1, "unwind": 40, "wall_s": 600},
         "thorough": {"params": {"WORKERS": 2, "DEPTH": 1, "MAXEVS": 3, "P": 2}, "two_pass": True, "pass1_preempt": 1, "unwind": 40, "wall_s": 3000}},
        {"name": "H3-ecal-addEventAndWait", "pkg": "interpreter", "files": ["interpreter/common.go", "interpreter/c02.go"], "fn": "VerifC02EcalWait",
         "what": "ECAL addEventAndWait with two sinks (second on a child event, scope-restricted), failing flags / child / scope symbolic; result list checked", "reach": ["evaluated"],
         "quick": {"params": {"WORKERS": 1, "P": 0}, "unwind": 60, "wall_s": 600},
         "thorough": {"params": {"WORKERS": 2, "P": 1}, "unwind": 60, "wall_s": 3000}},
        {"name": "H4-nested-wait", "pkg": "engine", "files": ["engine/c02.go"], "fn": "VerifC02NestedWait",
         "what": "N outer events added back to back to N+1 workers, every outer action waits for an inner cascade (nested wait on a worker); all schedules with <= P pre-emptions", "reach": ["quiescent"],
         "quick": {"params": {"N": 2, "P": 1}, "unwind": 40, "wall_s": 600},
         "thorough": {"params": {"N": 2, "P": 2}, "unwind": 40, "wall_s": 3000}},
        {"name": "H2-two-cascades", "pkg": "engine", "files": ["engine/c02.go"], "fn": "VerifC02TwoCascades",
         "what": "two cascades in flight, 1 worker sequential (quick) / 2 workers P<=1 (thorough)", "reach": ["second-returned", "all-idle"],
         "quick": {"params": {"WORKERS": 1, "DEPTH": 1, "MAXEVS": 5, "P": 0}, "unwind": 40, "wall_s": 300},
         "thorough": {"params": {"WORKERS": 2, "DEPTH": 1, "MAXEVS": 4, "P": 1}, "unwind": 40, "wall_s": 2400}},
    ],
    "assumptions": ["pre-emption bound", "fair-yield rule for polling loops", "sequential consistency"],
    "outside": ["> 2 workers", "cascades deeper than 3"],
}

SPECS["C01"] = {
    "explanation": "Real rule index (kind tree with wildcards, state matcher bit masks, regexp patterns), processor trigger cache, scope filter and "
                   "suppression; rule sets, kind patterns (symbolic segment bytes), state patterns/values (symbolic kinds, symbolic float64/bytes) and event "
                   "histories are symbolic; results are compared with a small reference matcher written from the statement.",
    "level_text": "bounded: for all rule sets / events / histories within the stated sizes the set (multiset) of fired rules equals the reference",
    "level_note": "trusts go/ssa, gosym (maps with symbolic keys split on key equalities), z3; R<=3 rules, P<=2 patterns, S<=3 segments, 2 state keys",
    "harnesses": [
        {"name": "H1-match-kinds", "pkg": "engine", "files": ["engine/c01.go"], "fn": "VerifC01Match",
         "what": "2 rules x <=2 patterns x <=2 segments over {a,b,*}, event kinds <=3 segments over {a,b,c}, no state", "reach": ["built", "matched"],
         "quick": {"params": {"R": 2, "P": 2, "S": 2, "STATE": 0}, "unwind": 60, "wall_s": 600},
         "thorough": {"params": {"R": 3, "P": 2, "S": 2, "STATE": 0}, "unwind": 60, "wall_s": 2400}},
        {"name": "H1-match-state", "pkg": "engine", "files": ["engine/c01.go"], "fn": "VerifC01Match",
         "what": "2 rules x 1 pattern x 1 segment, state patterns over 2 keys x {nil,number,string,regexp} vs event values {absent,nil,number,string,list}", "reach": ["built", "matched"],
         "quick": {"params": {"R": 2, "P": 1, "S": 1, "STATE": 1, "KEYS": 1}, "unwind": 60, "wall_s": 600},
         "thorough": {"params": {"R": 2, "P": 1, "S": 1, "STATE": 1, "KEYS": 2}, "unwind": 60, "wall_s": 2400}},
        {"name": "H3-history", "pkg": "engine", "files": ["engine/c01.go"], "fn": "VerifC01History",
         "what": "running 1-worker processor, 2 rules, sequence of events with symbolic names {n1,n2} and kinds (trigger cache)", "reach": ["event-done"],
         "quick": {"params": {"R": 2, "S": 2, "EVENTS": 2}, "unwind": 60, "wall_s": 600},
         "thorough": {"params": {"R": 2, "S": 2, "EVENTS": 3}, "unwind": 60, "wall_s": 2400}},
        {"name": "H3-history-state", "pkg": "engine", "files": ["engine/c01.go"], "fn": "VerifC01History",
         "what": "same with state rules (1 key, pattern kinds nil/number/string/regexp) and event states symbolic: earlier events of the same kind with other states must not change what a later event fires", "reach": ["event-done"],
         "quick": {"params": {"R": 2, "S": 1, "EVENTS": 2, "STATE": 1, "KEYS": 1}, "unwind": 60, "wall_s": 600},
         "thorough": {"params": {"R": 2, "S": 1, "EVENTS": 3, "STATE": 1, "KEYS": 1}, "unwind": 60, "wall_s": 2400}},
        {"name": "H4-scope-suppression", "pkg": "engine", "files": ["engine/c01.go"], "fn": "VerifC01ScopeSuppression",
         "what": "cascade scope over 4 paths (defined/allow symbolic), per-rule scope requirements over 4 paths and suppression matrix symbolic", "reach": ["built", "processed"],
         "quick": {"params": {"R": 2}, "unwind": 60, "wall_s": 600},
         "thorough": {"params": {"R": 3}, "unwind": 60, "wall_s": 2400}},
        {"name": "H5-sinks", "pkg": "interpreter", "files": ["interpreter/common.go", "interpreter/c01.go"], "fn": "VerifC01Sinks",
         "what": "two sinks declared in ECAL (6 kind patterns, 4 state pattern kinds, mutual suppression symbolic) on a running processor, event of 6 kinds x 4 state kinds", "reach": ["declared", "processed"],
         "quick": {"params": {"NP": 4, "NK": 3}, "unwind": 60, "wall_s": 900}, "thorough": {"unwind": 60, "wall_s": 2400}},
        {"name": "H2-mask-63", "pkg": "engine", "files": ["engine/c01.go"], "fn": "VerifC01Mask",
         "what": "63 state rules on one kind, event value symbolic float64", "reach": ["matched"],
         "quick": {"params": {"N": 63}, "unwind": 80, "wall_s": 600}, "thorough": {"params": {"N": 63}, "unwind": 80, "wall_s": 600}},
        {"name": "H2-mask-64", "pkg": "engine", "files": ["engine/c01.go"], "fn": "VerifC01Mask",
         "what": "64 state rules on one kind", "reach": ["matched"],
         "quick": {"params": {"N": 64}, "unwind": 80, "wall_s": 600}, "thorough": {"params": {"N": 64}, "unwind": 80, "wall_s": 600}},
        {"name": "H2-mask-65", "pkg": "engine", "files": ["engine/c01.go"], "fn": "VerifC01Mask",
         "what": "65 state rules on one kind (beyond the 64-bit mask: listed known finding)", "reach": ["matched"],
         "quick": {"params": {"N": 65}, "unwind": 80, "wall_s": 600}, "thorough": {"params": {"N": 65}, "unwind": 80, "wall_s": 600}},
    ],
    "assumptions": ["segment alphabet {a,b,*} / {a,b,c}", "map iteration in insertion order (Go randomises; both orders give the same sets here)"],
    "outside": ["more than 64 state rules on one kind (see known findings)", "regexps other than ^a", "> 1 worker (ordering is C10)"],
}

SPECS["C17"] = {
    "explanation": "Real FileImportLocator.Resolve with path/filepath (Join, Clean, Rel) interpreted from SSA on an import path of N symbolic bytes over "
                   "{a . /} (thorough: {a b . / space}) and 11 root forms (absolute, relative, with .. and trailing separators, the file system root, the empty string); ReadFile is replaced by a recorder; the opened path must have the root as a "
                   "segment-wise prefix per an independent segment-stack normaliser. Eleven root forms incl. the empty string; the native replay plants sentinel files at the escaping path and next to every directory of the tree.",
    "level_text": "bounded: for ALL paths up to N bytes over the alphabet and all listed roots, no path outside the root is opened",
    "level_note": "trusts go/ssa, gosym, z3; ioutil.ReadFile stubbed (records path); os.PathSeparator '/' (Linux); symlinks outside ('lexically')",
    "harnesses": [
        {"name": "H1-paths-%d" % n, "pkg": "util", "files": ["util/c17.go"], "fn": "VerifC17Resolve",
         "what": "all import paths of exactly %d bytes over {a,.,/} x 11 roots" % n, "reach": ["resolved", "opened"] if n > 0 else ["resolved"],
         "quick": {"params": {"N": n}, "unwind": 60, "wall_s": 600} if n <= 5 else None,
         "thorough": {"params": {"N": n}, "unwind": 80, "wall_s": 2400}}
        for n in (1, 2, 3, 4, 5, 6, 7)
    ] + [
        {"name": "H1-paths-wide-%d" % n, "pkg": "util", "files": ["util/c17.go"], "fn": "VerifC17Resolve",
         "what": "all import paths of exactly %d bytes over {a,b,.,/,space} x 11 roots" % n, "reach": ["resolved", "opened"],
         "quick": None,
         "thorough": {"params": {"N": n, "ALPHA": 1}, "unwind": 80, "wall_s": 2400}}
        for n in (5, 6)
    ],
    "assumptions": ["alphabets as stated", "working directory /w for relative roots", "ReadFile stub"],
    "outside": ["symlinks", "Windows volume names", "paths longer than the bound"],
}

_C16 = ["interpreter/common.go", "interpreter/c16.go"]
SPECS["C16"] = {
    "explanation": "Real HandleInput on command lines assembled from symbolic choices (12 command words x 0..2/3 arguments from 16 representative strings "
                   "or 2 arbitrary bytes) in four concretely constructed debugger states (fresh, finished run, thread suspended at top level, suspended "
                   "inside a call); every implicit panic site is an obligation; afterwards the debugger lock must be free and status must answer. Since the third session: every result is handed to the real encoding/json, program variables and error data range over 11 values of the ECAL value universe, a state suspended by break-on-error, expressions calling functions of the program.",
    "level_text": "bounded: all command lines in the stated vocabulary, 1 (quick) or 2 (thorough) commands in sequence, 4 states: no panic, no lock left held, status still answers",
    "level_note": "trusts go/ssa, gosym (sync model incl. RWMutex/Cond), z3; results are handed to the real encoding/json natively (concrete data on every path)",
    "harnesses": [
        {"name": "H1-state-%d" % k, "pkg": "interpreter", "files": _C16, "fn": "VerifC16Total",
         "what": "state %d (%s), one command line with 0..2 arguments" % (k, n), "reach": ["state-built", "command-returned", "status-answered"],
         "quick": {"params": {"STATE": k, "NCMD": 1, "MAXARGS": 2}, "unwind": 40, "wall_s": 600},
         "thorough": {"params": {"STATE": k, "NCMD": 1, "MAXARGS": 3}, "unwind": 40, "wall_s": 2400}}
        for k, n in enumerate(["fresh", "finished run", "suspended at top level", "suspended inside a call", "suspended by break-on-error at a failing raise"])
    ] + [
        {"name": "H3-values-state-%d" % k, "pkg": "interpreter", "files": _C16, "fn": "VerifC16Total",
         "what": "state %d with a program variable (state 4: the data of the raised error) holding one of 11 values of the ECAL value universe (non-finite numbers, nested containers, number-keyed map, function): every result is JSON-encodable" % k,
         "reach": ["state-built", "command-returned", "status-answered"],
         "quick": {"params": {"STATE": k, "NCMD": 1, "MAXARGS": 1, "VALUES": 1}, "unwind": 40, "wall_s": 600},
         "thorough": {"params": {"STATE": k, "NCMD": 1, "MAXARGS": 2, "VALUES": 1}, "unwind": 40, "wall_s": 2400}}
        for k in (2, 3, 4)
    ] + [
        {"name": "H1-%s-3args-state-%d" % (cn, k), "pkg": "interpreter", "files": _C16, "fn": "VerifC16Total",
         "what": "state %d, command %s with 0..3 arguments (expressions that parse but fail when evaluated are in the vocabulary)" % (k, cn), "reach": ["state-built", "command-returned", "status-answered"],
         "quick": {"params": {"STATE": k, "NCMD": 1, "MAXARGS": 3, "CMD": ci}, "unwind": 40, "wall_s": 600},
         "thorough": None}
        for (cn, ci) in (("extract", 8), ("inject", 9)) for k in (2, 3)
    ] + [
        {"name": "H2-two-commands-state-%d" % k, "pkg": "interpreter", "files": _C16, "fn": "VerifC16Total",
         "what": "state %d, two command lines with 0..1 arguments each" % k, "reach": ["state-built", "command-returned", "status-answered"],
         "quick": None,
         "thorough": {"params": {"STATE": k, "NCMD": 2, "MAXARGS": 1}, "unwind": 40, "wall_s": 2400}}
        for k in (0, 2, 3)
    ],
    "assumptions": ["argument vocabulary as listed in the harness", "program thread id 1"],
    "outside": ["telnet debug server / CLI", "more than 2 commands in sequence", "values beyond the 11 listed in the harness"],
}

_C07 = ["interpreter/common.go", "interpreter/c07.go"]
SPECS["C07"] = {
    "explanation": "Real Lex goroutine + real ParseWithRuntime on (a) all sequences of K tokens chosen symbolically from a table of token texts, (b) valid base programs "
                   "with 1-2 positions replaced/deleted/duplicated symbolically, (c) the lexer alone on N arbitrary bytes. Asserted: tree xor positioned error, no nil "
                   "node, no goroutine alive after the call; PrettyPrint / Validate / Eval are run on every returned tree as the judge of well-formedness (no panic).",
    "level_text": "bounded: all token sequences up to K over the table, all 1-2 token mutations of 8 base programs, all byte strings up to N",
    "level_note": "trusts go/ssa, gosym (goroutines/channels, unicode tables up to U+2FFF, regexp NFA unrolling), z3; token texts are representatives, not all 70 token ids",
    "harnesses": [
        {"name": "H4-tokens-K%d" % k, "pkg": "interpreter", "files": _C07, "fn": "VerifC07Tokens",
         "what": "all sequences of %d tokens over the first %d token texts" % (k, t), "reach": ["parsed", "tree"],
         "quick": {"params": {"K": k, "T": t, "EVAL": 1}, "unwind": 40, "wall_s": 600} if q else None,
         "thorough": {"params": {"K": k, "T": t, "EVAL": 1}, "unwind": 40, "wall_s": 3000}}
        for (k, t, q) in ((1, 38, True), (2, 38, True), (3, 12, True), (3, 38, False), (4, 12, False))
    ] + [
        {"name": "H3-mutations-%d" % m, "pkg": "interpreter", "files": _C07, "fn": "VerifC07Mutations",
         "what": "16 base programs, %d symbolic mutation(s) (replace by one of %d texts / delete / duplicate)" % (m, t), "reach": ["parsed", "tree"],
         "quick": {"params": {"MUT": m, "T": t}, "unwind": 40, "wall_s": 600} if m == 1 else None,
         "thorough": {"params": {"MUT": m, "T": t}, "unwind": 40, "wall_s": 3000}}
        for (m, t) in ((1, 38), (2, 12))
    ] + [
        {"name": "H2-lexer-bytes-%d" % n, "pkg": "parser", "files": ["parser/c07.go"], "fn": "VerifC07LexTotal",
         "what": "lexer on all ASCII inputs of %d bytes" % n, "reach": ["lexed"],
         "quick": {"params": {"N": n}, "unwind": 16, "wall_s": 600} if n <= 3 else None,
         "thorough": {"params": {"N": n}, "unwind": 16, "wall_s": 3000}}
        for n in (2, 3, 4)
    ] + [
        {"name": "H5-error-tail", "pkg": "interpreter", "files": _C07, "fn": "VerifC07ErrorTail",
         "what": "first token of T texts, 0..M filler tokens (beyond the look-ahead buffer), 9 lexical-error/unfinished tails, 4 trailers: nothing left running",
         "reach": ["parsed"],
         "quick": {"params": {"T": 12, "M": 6}, "unwind": 40, "wall_s": 600},
         "thorough": {"params": {"T": 38, "M": 10}, "unwind": 40, "wall_s": 3000}},
    ],
    "assumptions": ["token texts separated by one blank", "ASCII bytes in the lexer harness"],
    "outside": ["sequences longer than K", "trees reachable only with more tokens", "non-ASCII input bytes"],
}

_C13 = ["interpreter/common.go", "interpreter/c13.go"]
SPECS["C13"] = {
    "explanation": "Two real ParseWithRuntime calls run as goroutines (four goroutines with both lexers); pass 1 is a lockset (Eraser) discovery over all its "
                   "schedules that (a) reports unsynchronised concurrent access to package-level state of parser/interpreter - each report is confirmed by running the "
                   "same harness under Go's race detector - and (b) yields the racy sites; pass 2 pre-empts at those sites (scheduling decisions symbolic, budget P) and "
                   "asserts that each parse returns exactly what it returns alone. The undisturbed reference parses happen before or after the concurrent phase (symbolic), so that lazily initialised state is seen cold.",
    "level_text": "bounded: 6x6 program pairs, runtime provider attached or not, all schedules with <= P pre-emptions at discovered racy sites; round-robin at blocking switches",
    "level_note": "trusts go/ssa, gosym scheduler + lockset pass (candidates only; verdicts are assertion failures or race-detector confirmations), z3",
    "harnesses": [
        {"name": "H1-two-parses-rt%d" % rt, "pkg": "interpreter", "files": _C13, "fn": "VerifC13Reentrant",
         "what": "two concurrent parses of programs chosen from 6, provider %s" % ("attached" if rt else "nil"), "reach": ["both-done"],
         "quick": {"params": {"RT": rt, "P": 1}, "two_pass": True, "unwind": 60, "wall_s": 900},
         "thorough": {"params": {"RT": rt, "P": 2}, "two_pass": True, "unwind": 60, "wall_s": 3000}}
        for rt in (0, 1)
    ],
    "assumptions": ["program set of six", "pre-emptions only at sites the lockset pass reports", "sequential consistency"],
    "outside": ["3+ concurrent parses", "arbitrary programs", "imports from sinks"],
}

_C12 = ["interpreter/common.go", "interpreter/c12.go"]
SPECS["C12"] = {
    "explanation": "Real parser + mutexRuntime.Eval: T goroutines evaluate an ECAL function with a mutex block (name symbolic) inside a loop inside a function, a nested "
                   "block of the same name, and a symbolic exit kind (fall through, error, return, break, continue); thread ids are symbolic and pairwise distinct; "
                   "Go probes count occupancy per name; every scheduling decision at a sync operation is a symbolic variable under a pre-emption budget. Since the third session: gated hand-overs (A inside, B waiting, A leaves, a third entrant arrives while B is inside) and sink invocations on pool workers as the contending threads.",
    "level_text": "bounded: T threads x 5 exit kinds x 2 names x all distinct thread ids in 0..3 x all schedules with <= P pre-emptions: exclusion, re-entrancy, release on every exit (later entrant, deadlock verdict), no lost update",
    "level_note": "trusts go/ssa, gosym scheduler and sync model, z3; T<=2 (quick) / 3, P<=2, nesting depth 2",
    "harnesses": [
        {"name": "H1-threads-2", "pkg": "interpreter", "files": _C12, "fn": "VerifC12Mutex",
         "what": "2 threads, 2 names, 5 exit kinds, tids in 0..3, P pre-emptions", "reach": ["all-done", "later-entrant-done"],
         "quick": {"params": {"T": 2, "P": 1, "NAMES": 1, "TIDS": 2, "EXITS": 5}, "unwind": 60, "wall_s": 900},
         "thorough": {"params": {"T": 2, "P": 2, "NAMES": 2, "TIDS": 3, "EXITS": 5}, "unwind": 60, "wall_s": 3600}},
        {"name": "H1-two-names", "pkg": "interpreter", "files": _C12, "fn": "VerifC12Mutex",
         "what": "2 threads, 2 names, fall-through exits: different names overlap (reachability), same names exclude", "reach": ["all-done", "later-entrant-done", "different-names-overlap"],
         "quick": {"params": {"T": 2, "P": 1, "NAMES": 2, "TIDS": 3, "EXITS": 1}, "unwind": 60, "wall_s": 900},
         "thorough": None},
        {"name": "H1-threads-2-P2", "pkg": "interpreter", "files": _C12, "fn": "VerifC12Mutex",
         "what": "2 threads on one name, one (quick) / two (thorough) blocks each with a nested re-entrant block, fall-through exits, thread ids 0/1, all schedules with <= 2 pre-emptions (release/registration hand-over windows)", "reach": ["all-done", "later-entrant-done"],
         "quick": {"params": {"T": 2, "P": 2, "NAMES": 1, "TIDS": 2, "EXITS": 1, "TWICE": 0}, "unwind": 60, "wall_s": 900},
         "thorough": {"params": {"T": 2, "P": 2, "NAMES": 1, "TIDS": 2, "EXITS": 1, "TWICE": 1}, "unwind": 60, "wall_s": 5400}},
        {"name": "H2-handover", "pkg": "interpreter", "files": _C12, "fn": "VerifC12Handover",
         "what": "gated hand-over: A inside, B waiting, A leaves (5 exit kinds), B inside, a third entrant (new thread or A's id again) must wait; then all finish and a later entrant gets in", "reach": ["third-entrant-arrived", "later-entrant-done"],
         "quick": {"unwind": 60, "wall_s": 600}, "thorough": {"unwind": 60, "wall_s": 600}},
        {"name": "H3-sink-threads", "pkg": "interpreter", "files": _C12, "fn": "VerifC12SinkThreads",
         "what": "the contending threads are sink invocations on two pool workers: first invocation held inside the block by a gate, the second waits; no lost update", "reach": ["second-invocation-arrived", "all-done"],
         "quick": {"unwind": 60, "wall_s": 600}, "thorough": {"unwind": 60, "wall_s": 600}},
        {"name": "H1-threads-3", "pkg": "interpreter", "files": _C12, "fn": "VerifC12Mutex",
         "what": "3 threads on one name, P=1", "reach": ["all-done", "later-entrant-done"],
         "quick": None,
         "thorough": {"params": {"T": 3, "P": 1, "NAMES": 1}, "unwind": 60, "wall_s": 3000}},
    ],
    "assumptions": ["pre-emptions only at sync operations (the probes add one inside each block)", "sequential consistency"],
    "outside": ["> 3 threads", "nesting > 2"],
}

_C11 = ["interpreter/common.go", "interpreter/c11.go"]
SPECS["C11"] = {
    "explanation": "Real provider, sinks declared through the real parser/interpreter, 2-worker processor; events with symbolic failing flags are added and processed "
                   "concurrently. Pass 1 (happens-before discovery) reports unsynchronised access to shared cells and package-level state (confirmed with the race "
                   "detector); pass 2 pre-empts at those sites with symbolic scheduling decisions and asserts per event: error recorded iff its flag is set, with its "
                   "own type/detail/data, attributed to its event; marks show every invocation saw its own event and locals. Since the third session: the report as ECAL code sees it (addEventAndWait), a declaration scope that defines the names the invocation scope defines (pre-emption at any sync operation), sinks on a wildcard pattern next to sinks on specific kinds.",
    "level_text": "bounded: 2 workers, 2-3 events, same sink or two sinks, all failing-flag assignments, all schedules with <= P pre-emptions at discovered racy sites",
    "level_note": "trusts go/ssa, gosym scheduler/HB pass, z3; pre-emptions only at sites pass 1 reports; round-robin at blocking switches",
    "harnesses": [
        {"name": "H1-same-sink", "pkg": "interpreter", "files": _C11, "fn": "VerifC11Sinks",
         "what": "2 events on one sink, 2 workers", "reach": ["quiescent"],
         "quick": {"params": {"SINKS": 1, "EVENTS": 2, "P": 1}, "two_pass": True, "unwind": 60, "wall_s": 900},
         "thorough": {"params": {"SINKS": 1, "EVENTS": 3, "P": 2}, "two_pass": True, "unwind": 60, "wall_s": 3000}},
        {"name": "H1-two-sinks", "pkg": "interpreter", "files": _C11, "fn": "VerifC11Sinks",
         "what": "2 events on two different sinks, 2 workers", "reach": ["quiescent"],
         "quick": {"params": {"SINKS": 2, "EVENTS": 2, "P": 1}, "two_pass": True, "unwind": 60, "wall_s": 900},
         "thorough": {"params": {"SINKS": 2, "EVENTS": 2, "P": 2}, "two_pass": True, "unwind": 60, "wall_s": 3000}},
        {"name": "H1-wildcard-layout", "pkg": "interpreter", "files": _C11, "fn": "VerifC11Sinks",
         "what": "2 events of sibling kinds x.a / x.b on two sinks, next to 0..3 sinks on the wildcard pattern x.* (shared parts of the rule index), 2 workers", "reach": ["quiescent"],
         "quick": {"params": {"SINKS": 2, "EVENTS": 2, "P": 1, "WILD": 4}, "two_pass": True, "pass1_preempt": 1, "unwind": 60, "wall_s": 900},
         "thorough": {"params": {"SINKS": 2, "EVENTS": 2, "P": 2, "WILD": 4}, "two_pass": True, "pass1_preempt": 1, "unwind": 60, "wall_s": 3000}},
        {"name": "H3-ecal-report", "pkg": "interpreter", "files": _C11, "fn": "VerifC11EcalReport",
         "what": "ECAL addEventAndWait on an event that fans out to two events on one sink (failing flags symbolic), 2 workers: the result seen by ECAL code, entry by entry", "reach": ["evaluated"],
         "quick": {"params": {"P": 1}, "two_pass": True, "unwind": 60, "wall_s": 900},
         "thorough": {"params": {"P": 2}, "two_pass": True, "unwind": 60, "wall_s": 3000}},
        {"name": "H2-shared-names", "pkg": "interpreter", "files": _C11, "fn": "VerifC11Sinks",
         "what": "2 events on one sink, 2 workers, the declaration scope optionally defines a variable named event; one pre-emption at ANY sync operation (scope locks included)", "reach": ["quiescent"],
         "quick": {"params": {"SINKS": 1, "EVENTS": 2, "P": 1, "GLOBALS": 1, "SYNC": 1}, "unwind": 60, "wall_s": 900},
         "thorough": {"params": {"SINKS": 1, "EVENTS": 2, "P": 2, "GLOBALS": 1, "SYNC": 1}, "unwind": 60, "wall_s": 3000}},
    ],
    "assumptions": ["pre-emptions only at sites the discovery pass reports", "sequential consistency"],
    "outside": ["16 workers", "races inside fmt/logger internals", "calls to shared global functions from sinks"],
}

_C15 = ["interpreter/common.go", "interpreter/c15.go"]
SPECS["C15"] = {
    "explanation": "Resumability: a program goroutine with a breakpoint and a driver goroutine polling Status() and issuing Continue; happens-before pass finds the "
                   "unsynchronised cells of the suspend/continue hand-shake, pass 2 pre-empts there with symbolic scheduling decisions; a quiescent state with the continue "
                   "executed and the thread still waiting is the lost wake-up. Transparency: four programs (assignments, function call, loop, try/except/finally) run with a "
                   "symbolic breakpoint set and a symbolic sequence of resume/stepin/stepover/stepout commands; result, log and final variables must equal the undebugged run. Since the third session: suspension line sequences against an independent tracer, breakpoint command sequences over sources with names in a prefix relation against a table, a console goroutine issuing commands while a thread runs (data races confirmed with the race detector; dead-locks with sync.RWMutex modelled with writer preference).",
    "level_text": "bounded: resumability for 2 programs/breakpoints with <= P pre-emptions; transparency for 4 programs x all breakpoint subsets x all command sequences up to 6 (deterministic schedule)",
    "level_note": "trusts go/ssa, gosym scheduler/HB pass, encoding/json executed natively on concrete data, z3",
    "harnesses": [
        {"name": "H2-resume-top", "pkg": "interpreter", "files": _C15, "fn": "VerifC15Resume",
         "what": "breakpoint on line 2 of a 3-line program, one continue", "reach": ["quiescent", "finished"],
         "quick": {"params": {"PROG": 0, "LINE": 2, "P": 2, "CONTS": 1}, "unwind": 60, "wall_s": 900},
         "thorough": {"params": {"PROG": 0, "LINE": 2, "P": 3, "CONTS": 1}, "unwind": 60, "wall_s": 3000}},
        {"name": "H2-resume-in-call", "pkg": "interpreter", "files": _C15, "fn": "VerifC15Resume",
         "what": "breakpoint inside a function body, one continue", "reach": ["quiescent", "finished"],
         "quick": {"params": {"PROG": 1, "LINE": 2, "P": 2, "CONTS": 1}, "unwind": 60, "wall_s": 900},
         "thorough": {"params": {"PROG": 1, "LINE": 2, "P": 3, "CONTS": 1}, "unwind": 60, "wall_s": 3000}},
    ] + [
        {"name": "H2-resume-after-%s" % cn, "pkg": "interpreter", "files": _C15, "fn": "VerifC15Resume",
         "what": "breakpoint on line 1, first command %s (thread suspends again on the next line), then resume" % cn, "reach": ["quiescent", "finished"],
         "quick": {"params": {"PROG": 0, "LINE": 1, "P": 1 if cn == "stepin" else 2, "CONTS": 2, "FIRSTCMD": ci}, "unwind": 60, "wall_s": 900},
         "thorough": {"params": {"PROG": 1, "LINE": 5, "P": 2, "CONTS": 3, "FIRSTCMD": ci}, "unwind": 60, "wall_s": 3000}}
        for (cn, ci) in (("stepin", 1), ("stepover", 2))
    ] + [
        {"name": "H1-transparent", "pkg": "interpreter", "files": _C15, "fn": "VerifC15Transparent",
         "what": "4 programs x breakpoint subsets x command sequences", "reach": ["finished"],
         "quick": {"params": {"CMDS": 4}, "unwind": 60, "wall_s": 900},
         "thorough": {"params": {"CMDS": 8}, "unwind": 60, "wall_s": 3000}},
        {"name": "H3-suspensions", "pkg": "interpreter", "files": _C15, "fn": "VerifC15Suspensions",
         "what": "8 programs (calls with further evaluation on the call line, calls in loops, nested and recursive calls, try) x all active-breakpoint subsets x one disabled breakpoint, resume-only driver: suspension line sequence equals the reference derived from an independent tracer",
         "reach": ["compared"],
         "quick": {"params": {"CMDS": 16}, "unwind": 60, "wall_s": 900},
         "thorough": {"params": {"CMDS": 24}, "unwind": 60, "wall_s": 3000}},
        {"name": "H5-console-races", "pkg": "interpreter", "files": _C15, "fn": "VerifC15ConsoleRaces",
         "what": "a console goroutine issues 2 of 11 debugger commands while a program thread runs: data races on the debugger's bookkeeping (happens-before pass, confirmed with go test -race)", "reach": ["both-done"],
         "quick": {"params": {"P": 1}, "two_pass": True, "unwind": 60, "wall_s": 900},
         "thorough": {"params": {"P": 2}, "two_pass": True, "unwind": 60, "wall_s": 3000}},
        {"name": "H5-console-deadlocks", "pkg": "interpreter", "files": _C15, "fn": "VerifC15ConsoleRaces",
         "what": "same console and program thread with a pre-emption at ANY sync operation (sync.RWMutex modelled with writer preference): no command dead-locks with a running thread", "reach": ["both-done"],
         "quick": {"params": {"P": 1, "SYNC": 1}, "unwind": 60, "wall_s": 900},
         "thorough": {"params": {"P": 2, "SYNC": 1}, "unwind": 60, "wall_s": 3000}},
        {"name": "H5-console-races-mutex", "pkg": "interpreter", "files": _C15, "fn": "VerifC15ConsoleRaces",
         "what": "same with a program that enters two mutex blocks (the console's lockstate result refers to the interpreter's mutex tables)", "reach": ["both-done"],
         "quick": None,
         "thorough": {"params": {"P": 1, "MUTEX": 1}, "two_pass": True, "unwind": 60, "wall_s": 3000}},
        {"name": "H4-breakpoint-book", "pkg": "interpreter", "files": _C15, "fn": "VerifC15BreakpointBook",
         "what": "2 (quick) / 3 (thorough) symbolic breakpoint commands (break, disablebreak, rmbreak line, rmbreak source) over 3 sources with names in a prefix relation x 2 lines, then a program whose source name is symbolic: suspensions equal the table",
         "reach": ["compared"],
         "quick": {"params": {"OPS": 2}, "unwind": 60, "wall_s": 900},
         "thorough": {"params": {"OPS": 3}, "unwind": 60, "wall_s": 3000}},
    ],
    "assumptions": ["pre-emptions only at discovered racy sites", "deterministic schedule in the transparency harness"],
    "outside": ["telnet debug server and CLI", "sinks on several workers under debugging", "breakonstart/breakonerror flags"],
}

SPECS["C08"] = {
    "explanation": "Real Parse -> PrettyPrint -> Parse -> PrettyPrint on (a) operator shapes chosen symbolically (15 binary x 15 binary operators, either side "
                   "parenthesised; 3 prefix operators over/under binary ones), (b) 31 statement templates nested in 4 block kinds, (c) string literals with N symbolic "
                   "body bytes over {a,\",',\\,{,},newline} in the four literal forms; asserted: printed text parses, trees equal up to positions/comments incl. raw-vs-"
                   "interpolating kind, second print equals the first. text/template.Execute runs natively on the path's concrete data. Since the third session: a comment of 9 forms inserted at every token boundary of 12 statement kinds, and the real FormatFiles over an in-memory file system replaced at the os.OpenFile level (open flags modelled).",
    "level_text": "bounded: depth-2 operator nesting exhaustive over the operator table, statement templates x nestings, string bodies up to N bytes over the alphabet",
    "level_note": "trusts go/ssa, gosym, native text/template and strconv.Quote/Unquote on concretised data, z3",
    "harnesses": [
        {"name": "H1-operators", "pkg": "parser", "files": ["parser/c08.go"], "fn": "VerifC08Operators",
         "what": "operator nesting shapes", "reach": ["parsed", "reparsed"],
         "quick": {"unwind": 60, "wall_s": 900}, "thorough": {"unwind": 60, "wall_s": 1800}},
        {"name": "H3-parameters", "pkg": "parser", "files": ["parser/c08.go"], "fn": "VerifC08Parameters",
         "what": "parameter defaults / call arguments / container elements with a symbolic operator or a 2-byte symbolic string over {a,%,d,space,backslash}", "reach": ["parsed", "reparsed"],
         "quick": {"unwind": 60, "wall_s": 900}, "thorough": {"unwind": 60, "wall_s": 1800}},
        {"name": "H3-statements", "pkg": "parser", "files": ["parser/c08.go"], "fn": "VerifC08Statements",
         "what": "37 statement templates x 4 nestings", "reach": ["parsed", "reparsed"],
         "quick": {"unwind": 60, "wall_s": 900}, "thorough": {"unwind": 60, "wall_s": 1800}},
        {"name": "H4-lenient-forms", "pkg": "parser", "files": ["parser/c08.go"], "fn": "VerifC08LenientForms",
         "what": "33 lenient source forms (optional/dangling separators, parentheses, one-line blocks) and all except-clause shapes (0..2 names x comma/blank x 4 binders)", "reach": ["parsed", "reparsed"],
         "quick": {"unwind": 60, "wall_s": 900}, "thorough": {"unwind": 60, "wall_s": 1800}},
        {"name": "H6-comments", "pkg": "parser", "files": ["parser/c08.go"], "fn": "VerifC08Comments",
         "what": "12 statement kinds x a comment of 9 forms (or a bare line break) inserted at every token boundary", "reach": ["parsed", "reparsed"],
         "quick": {"unwind": 60, "wall_s": 900}, "thorough": {"unwind": 60, "wall_s": 1800}},
        {"name": "H5-format-files", "pkg": "cli/tool", "files": ["tool/memfs.go", "tool/c08.go"], "fn": "VerifC08FormatFiles",
         "what": "the real FormatFiles (filepath.Walk, ReadFile, Parse, PrettyPrint, WriteFile - all real code) over an in-memory directory tree: padded ECAL file (formatted text shorter / equal / longer than the original), second file, unparsable file, other extension; run twice",
         "reach": ["formatted", "formatted-twice"],
         "quick": {"unwind": 400, "wall_s": 900, "max_steps": 20000000, "interp_extra": ["flag"]}, "thorough": {"unwind": 400, "wall_s": 1800, "max_steps": 20000000, "interp_extra": ["flag"]}},
    ] + [
        {"name": "H2-strings-%d" % n, "pkg": "parser", "files": ["parser/c08.go"], "fn": "VerifC08Strings",
         "what": "string literal bodies of %d bytes in 4 forms" % n, "reach": ["parsed", "reparsed"],
         "quick": {"params": {"N": n}, "unwind": 60, "wall_s": 900} if n <= 2 else None,
         "thorough": {"params": {"N": n}, "unwind": 60, "wall_s": 3000}}
        for n in (1, 2, 3, 4)
    ],
    "assumptions": ["operator table and statement templates as listed in the harness", "string alphabet as stated"],
    "outside": ["deeper nesting", "arbitrary Unicode in strings", "the format tool's command line handling (flag parsing); symbolic links"],
}

_C03 = ["interpreter/common.go", "interpreter/c03.go"]
SPECS["C03"] = {
    "explanation": "Source text assembled from symbolically chosen operators (19 binary, 3 prefix), optional explicit parentheses and line breaks goes through the real "
                   "lexer, parser, Validate and Eval with variables of symbolic kind (number = arbitrary float64, bool, 1-byte string, list, null) and symbolic content; "
                   "the outcome is compared with a reference evaluator written from the language reference: same value (float results as SMT term equality) or same error "
                   "class naming the same operand. Cases the reference leaves undefined (mixed-kind comparisons, like on non-strings) assert nothing.",
    "level_text": "bounded: all operator pairs x groupings x operand kinds within the kind bound, contents fully symbolic (float64 full width); prefix operators on either side",
    "level_note": "trusts go/ssa, gosym (FP theory; identical terms fold, others solved by z3 with a 10 s cap), the reference evaluator in the harness",
    "harnesses": [
        {"name": "H1-pairs-group%d" % g, "pkg": "interpreter", "files": _C03, "fn": "VerifC03Pairs",
         "what": "x OP1 y OP2 z with at least one operator of group %d (0 arithmetic, 1 comparison, 2 boolean, 3 string/list), kinds number/bool/string" % g, "reach": ["evaluated", "compared"],
         "quick": {"params": {"KINDS": {0: 1, 1: 1, 2: 2, 3: 4}[g], "GROUP": g}, "unwind": 60, "wall_s": 900, "timeout_ms": 3000} if g in (0, 2) else None,
         "thorough": {"params": {"KINDS": 3 if g != 3 else 4, "GROUP": g}, "unwind": 60, "wall_s": 3000, "timeout_ms": 20000}}
        for g in (0, 1, 2, 3)
    ] + [
        {"name": "H1-pairs-arith-smallnum", "pkg": "interpreter", "files": _C03, "fn": "VerifC03Pairs",
         "what": "arithmetic group with numbers k/2, k in -32..31 (decidable operand domain)", "reach": ["evaluated", "compared"],
         "quick": None,
         "thorough": {"params": {"KINDS": 2, "GROUP": 0, "SMALLNUM": 1}, "unwind": 60, "wall_s": 3000, "timeout_ms": 30000}},
        {"name": "H2-reeval", "pkg": "interpreter", "files": _C03, "fn": "VerifC03Reeval",
         "what": "x OP [PRE] y parsed once, evaluated twice with fresh operand kinds/values in between (19 operators x 4 prefix forms): both outcomes equal the reference", "reach": ["evaluated", "compared"],
         "quick": {"params": {"KINDS": 3}, "unwind": 60, "wall_s": 900, "timeout_ms": 3000}, "thorough": {"params": {"KINDS": 5}, "unwind": 60, "wall_s": 3000, "timeout_ms": 20000}},
        {"name": "H1-prefix", "pkg": "interpreter", "files": _C03, "fn": "VerifC03Prefix",
         "what": "PRE x OP y / x OP PRE y over 3 prefix x 19 binary operators", "reach": ["evaluated", "compared"],
         "quick": {"params": {"KINDS": 3}, "unwind": 60, "wall_s": 900}, "thorough": {"params": {"KINDS": 5}, "unwind": 60, "wall_s": 3000}},
    ],
    "assumptions": ["strings of one byte over {a,b,.}", "lists of two numbers"],
    "outside": ["operator triples", "regexp semantics beyond the alphabet", "string interpolation inside operands (C14)", "assignment (loosest) is covered by the templates of C04/C05"],
}

_C20X = ["internal/cpu", "time", "internal/byteorder", "encoding/binary", "hash", "hash/crc32", "archive/zip"]
SPECS["C20"] = {
    "explanation": "The real marker scan of RunPackedBinary is executed on an in-memory executable: n symbolic filler bytes over {x,#,newline}, the real marker, "
                   "a 4-byte archive stub; os/file calls and runInterpreter are replaced by harness functions (the latter records the archive size it is handed). The "
                   "scanner's block size b1 is a package variable and is shrunk from 4096 to 8 (b2 keeps its value) so that two full periods of the buffer geometry fit "
                   "into the explored lengths. Counterexamples are replayed with a real temp file, a real zip archive and the real interpreter. A second harness runs the real Pack (packFiles over a modelled project tree, real zip writer) and then the real RunPackedBinary incl. runInterpreter (real zip reader, import locator, parser, interpreter): the exit code is the sum of tags the entry file reads from every packed module through imports by relative path after comparing each module's string with its expected content. Since the third session the tree harness runs on an in-memory file system replaced at the os.OpenFile level (open flags modelled): re-pack into an existing larger target, five spellings of the project directory.",
    "level_text": "bounded: all binary lengths 0..80 (> 2*(b1+b2)=72) at b1=8 (thorough also b1=16, 0..90) x all fillers over the 3-byte alphabet: the archive is found at the byte after the marker",
    "level_note": "trusts go/ssa, gosym, z3; function replacement for os/file/zip; the real 4096 geometry is covered only through the parametricity of the scan in b1",
    "harnesses": [
        {"name": "H1-scan-%d-%d" % (lo, hi), "pkg": "cli/tool", "files": ["tool/memfs.go", "tool/c20.go"], "fn": "VerifC20Scan",
         "what": "binary lengths %d..%d, b1=8" % (lo, hi), "reach": ["scanned"],
         "quick": {"params": {"LO": lo, "HI": hi, "B1": 8}, "unwind": 200, "wall_s": 900} if q else None,
         "thorough": {"params": {"LO": lo, "HI": hi, "B1": 8}, "unwind": 200, "wall_s": 3000}}
        for (lo, hi, q) in ((0, 20, True), (21, 40, True), (41, 60, True), (61, 80, True))
    ] + [
        {"name": "H1-scan-b16-%d-%d" % (lo, hi), "pkg": "cli/tool", "files": ["tool/memfs.go", "tool/c20.go"], "fn": "VerifC20Scan",
         "what": "binary lengths %d..%d, b1=16" % (lo, hi), "reach": ["scanned"],
         "quick": None,
         "thorough": {"params": {"LO": lo, "HI": hi, "B1": 16}, "unwind": 300, "wall_s": 3000}}
        for (lo, hi) in ((0, 45), (46, 90))
    ] + [
        {"name": "H2-tree", "pkg": "cli/tool", "files": ["tool/memfs.go", "tool/c20.go"], "fn": "VerifC20Tree",
         "what": "real Pack over a modelled project tree (4 shapes: same base name in two directories, nesting, empty file/directory, binary file) x module size classes x 3 source-binary lengths, real zip+deflate, real RunPackedBinary/runInterpreter: exit code = sum over all modules read back through imports",
         "reach": ["packed", "ran"],
         "quick": {"params": {"SIZES": 6, "CHUNK": 7}, "unwind": 5000, "wall_s": 900, "max_steps": 50000000, "interp_extra": _C20X},
         "thorough": {"params": {"SIZES": 8, "CHUNK": 5}, "unwind": 5000, "wall_s": 3000, "max_steps": 200000000, "interp_extra": _C20X}},
        {"name": "H2-tree-dir-spellings", "pkg": "cli/tool", "files": ["tool/memfs.go", "tool/c20.go"], "fn": "VerifC20Tree",
         "what": "same, the project directory spelled in 5 ways (plain, trailing separator, ./, x/../, /.): every packed file is found under its path relative to the directory",
         "reach": ["packed", "ran"],
         "quick": {"params": {"SIZES": 2, "CHUNK": 7, "SPELLINGS": 5}, "unwind": 5000, "wall_s": 900, "max_steps": 80000000, "interp_extra": _C20X},
         "thorough": {"params": {"SIZES": 4, "CHUNK": 5, "SPELLINGS": 5}, "unwind": 5000, "wall_s": 3000, "max_steps": 200000000, "interp_extra": _C20X}},
        {"name": "H2-tree-repack", "pkg": "cli/tool", "files": ["tool/memfs.go", "tool/c20.go"], "fn": "VerifC20Tree",
         "what": "same, the target optionally already holds the result of packing another, larger project (re-pack into the same file)",
         "reach": ["packed", "ran"],
         "quick": {"params": {"SIZES": 3, "CHUNK": 7, "REPACK": 1}, "unwind": 5000, "wall_s": 900, "max_steps": 80000000, "interp_extra": _C20X},
         "thorough": {"params": {"SIZES": 6, "CHUNK": 5, "REPACK": 1}, "unwind": 5000, "wall_s": 3000, "max_steps": 200000000, "interp_extra": _C20X}},
    ],
    "assumptions": ["b1 = 8 instead of 4096 in the scan harnesses", "filler alphabet {x,#,newline}", "os/file functions replaced by an in-memory file system in the symbolic run",
                    "tree harness: real archive/zip writer+reader, CRC-32 and directory walk are interpreted; the deflate codec is replaced by an identity codec whose reader "
                    "delivers at most CHUNK bytes per Read (io.Reader contract; the native replay uses real deflate with sizes scaled to its 32 KiB window)"],
    "outside": ["the deflate codec itself", "file contents other than the generated modules and one binary blob", "trees beyond the 4 shapes", "file names needing escaping"],
}

_C04 = ["interpreter/common.go", "interpreter/c04.go"]
SPECS["C04"] = {
    "explanation": "Program templates with symbolic selectors run through the real parser and interpreter; a Go probe function records a trace of marks. Each template has a "
                   "direct reference in the harness written from the language reference: try in a loop in a function with 7 handler shapes x otherwise x 6 exit kinds x 3 "
                   "error types x 1-2 iterations; range loops with symbolic bounds and +/- steps, list/map iteration, condition loops, nested loops with break/continue at "
                   "symbolic positions; if/elif/else with symbolic guards; return leaving the innermost function. Trace, result and error type must equal the reference.",
    "level_text": "bounded: all selector assignments of the listed templates",
    "level_note": "trusts go/ssa, gosym, z3 and the per-template references in the harness; programs outside the templates are not covered",
    "harnesses": [
        {"name": "H1-try-in-loop", "pkg": "interpreter", "files": _C04, "fn": "VerifC04TryInLoop",
         "what": "try/except/otherwise/finally shapes x exits", "reach": ["evaluated"],
         "quick": {"unwind": 60, "wall_s": 900, "max_steps": 2000000}, "thorough": {"unwind": 60, "wall_s": 3000, "max_steps": 2000000}},
        {"name": "H2-loops", "pkg": "interpreter", "files": _C04, "fn": "VerifC04Loops",
         "what": "range/list/map/condition loops, nested break/continue", "reach": ["evaluated"],
         "quick": {"unwind": 60, "wall_s": 600, "max_steps": 3000000}, "thorough": {"unwind": 60, "wall_s": 3000, "max_steps": 3000000}},
        {"name": "H2-loop-nest", "pkg": "interpreter", "files": _C04, "fn": "VerifC04LoopNest",
         "what": "4x4 loop kinds (range, list, map, condition) nested, break/continue at symbolic positions in both loops, optionally inside a function with return from the inner loop", "reach": ["evaluated"],
         "quick": {"unwind": 80, "wall_s": 900, "max_steps": 3000000}, "thorough": {"unwind": 80, "wall_s": 3000, "max_steps": 3000000}},
        {"name": "H2-map-loop", "pkg": "interpreter", "files": _C04, "fn": "VerifC04MapLoop",
         "what": "loop over a map of 3 keys chosen from 8 (numbers, strings, booleans, pairs with the same string form), [k, v] and single-variable form: once per element, keys in string order", "reach": ["evaluated"],
         "quick": {"unwind": 80, "wall_s": 600}, "thorough": {"unwind": 80, "wall_s": 1500}},
        {"name": "H3-guards-return", "pkg": "interpreter", "files": _C04, "fn": "VerifC04Guards",
         "what": "if/elif/else guards, return from nested functions", "reach": ["evaluated"],
         "quick": {"unwind": 60, "wall_s": 900}, "thorough": {"unwind": 60, "wall_s": 3000}},
    ],
    "assumptions": ["template programs as listed in the harness", "range step != 0"],
    "outside": ["non-terminating ranges", "arbitrary generated programs beyond the templates", "nesting depth > 3"],
}

_C05 = ["interpreter/common.go", "interpreter/c05.go"]
SPECS["C05"] = {
    "explanation": "Program templates through the real parser and interpreter with symbolic values (float64 full width) and symbolic selectors: read-after-write on lists "
                   "(symbolic index incl. negative), string/number keyed maps (existing/new keys), dot and bracket access, nested paths, aliases; ten scoping templates "
                   "(nearest-definition assignment, let, block locals, closures, recursion, defaults, fresh locals, by-value/by-reference, lexical not dynamic scope); "
                   "add/del/concat/len against a slice model; objects with multiple inheritance, this, init with arguments and super constructors. Expected values "
                   "are computed by direct references in the harness. Since the third session: lists against a model of independent lists over every backing-array fill level (concat returns a new list; aliases see writes), the same func expression evaluated twice in different scopes.",
    "level_text": "bounded: all selector assignments of the listed templates, values fully symbolic",
    "level_note": "trusts go/ssa, gosym (decimal round trip of small integer indices encoded digit-wise), z3 and the per-template references in the harness",
    "harnesses": [
        {"name": "H1-containers", "pkg": "interpreter", "files": _C05, "fn": "VerifC05Containers",
         "what": "7 container templates", "reach": ["evaluated"],
         "quick": {"unwind": 60, "wall_s": 900}, "thorough": {"unwind": 60, "wall_s": 3000}},
        {"name": "H2-scoping", "pkg": "interpreter", "files": _C05, "fn": "VerifC05Scoping",
         "what": "15 scoping/function templates", "reach": ["evaluated"],
         "quick": {"unwind": 60, "wall_s": 900, "timeout_ms": 5000}, "thorough": {"unwind": 60, "wall_s": 3000}},
        {"name": "H3-builtins", "pkg": "interpreter", "files": _C05, "fn": "VerifC05Builtins",
         "what": "add/del/concat/len vs slice model", "reach": ["evaluated"],
         "quick": {"unwind": 60, "wall_s": 900}, "thorough": {"unwind": 60, "wall_s": 3000}},
        {"name": "H3-fresh-lists", "pkg": "interpreter", "files": _C05, "fn": "VerifC05FreshLists",
         "what": "list of length 0..5 (literal or built by add) as shared argument of two concat calls, then a write through one list: all lists vs a model of independent lists, alias sees the write", "reach": ["evaluated"],
         "quick": {"unwind": 60, "wall_s": 900}, "thorough": {"unwind": 60, "wall_s": 3000}},
        {"name": "H4-objects", "pkg": "interpreter", "files": _C05, "fn": "VerifC05Objects",
         "what": "object with two super templates, init with argument, super constructor, method using this", "reach": ["evaluated"],
         "quick": {"unwind": 60, "wall_s": 900}, "thorough": {"unwind": 60, "wall_s": 3000}},
    ],
    "assumptions": ["template programs as listed in the harness"],
    "outside": ["arbitrary programs beyond the templates", "argument counts above the parameter count (behaviour not defined by the reference)"],
}

SPECS["C19"] = {
    "design_ref": "DESIGN.md section 0.6 (C19 as built; supersedes sections 5/6 for C19)",
    "explanation": "The real ECALFunctionAdapter.Run (argument count/kind checks, numeric conversion, the reflective call, result conversion, trailing-error handling and the "
                   "recover around all of it) is executed on a table of 25 synthetic Go functions covering every numeric parameter kind, string, bool, interface, slice, "
                   "variadic, multi-result, trailing-error and panicking signatures x argument vectors of length 0..MAXARGS over the ECAL value universe (numbers full-width "
                   "symbolic float64). Package reflect is not interpreted: the engine implements the subset the bridge uses (TypeOf/ValueOf, Type.NumIn/In/Out/Kind/Implements/Elem, "
                   "Value.Call/Interface/Kind/Int/Uint/Float) on go/types with the documented panics, Call runs the Go function through the executor, and Go panic/recover "
                   "semantics are executed (unwinding through deferred calls). A second harness goes through the real interpreter: ECAL calls of bridged functions registered "
                   "with AddStdlibFunc and of generated stdlib entries (math.floor/ceil/trunc/abs/sqrt/isNaN/isInf/inf) with arbitrary argument vectors, also inside try.",
    "level_text": "bounded: all functions of the table x all argument vectors up to MAXARGS over 7 value kinds, numbers full-width float64: no panic escapes, results/errors/conversions as stated",
    "level_note": "trusts go/ssa, gosym and in particular its implementation of the reflect subset on go/types (identity, assignability, Kind, Call's documented panics) and of panic/recover; "
                  "out-of-range float->integer conversions are modelled as an arbitrary value of the target type (implementation-specific in Go) except int64 (amd64 behaviour); "
                  "counterexamples are replayed natively against real reflect",
    "harnesses": [
        {"name": "H1-adapter", "pkg": "stdlib", "files": ["stdlib/c19.go"], "fn": "VerifC19Adapter",
         "what": "25 synthetic signatures x argument vectors of length 0..2 (quick) / 0..3 (thorough) x 7 kinds", "reach": ["before-run", "after-run", "wrong-vector", "fitting-vector", "in-range-integer"],
         "quick": {"params": {"MAXARGS": 2}, "unwind": 40, "wall_s": 600}, "thorough": {"params": {"MAXARGS": 3}, "unwind": 40, "wall_s": 3000}},
        {"name": "H2-ecal", "pkg": "interpreter", "files": ["interpreter/common.go", "interpreter/c06.go", "interpreter/c19.go"], "fn": "VerifC19Ecal",
         "what": "ECAL calls of 8 generated math entries, 2 functions added with AddStdlibFunc (mixed signature with trailing error; run-time panic), a constant and an unknown name x argument vectors of length 0..3 x 9 kinds, plain and inside try",
         "reach": ["before-eval", "after-eval", "fitting-vector", "fitting-mix"],
         "quick": {"params": {"MAXARGS": 3}, "unwind": 40, "wall_s": 900}, "thorough": {"params": {"MAXARGS": 4}, "unwind": 40, "wall_s": 3000}},
    ],
    "assumptions": ["synthetic function table as listed in the harness", "reflect subset as implemented by the engine"],
    "outside": ["plugin loading (package plugin)", "math functions without an exact SMT counterpart (sin, exp, ...): only their signatures are covered, through the synthetic table", "more than 3 arguments"],
}
