#!/usr/bin/env python3
"""selftest.py [parser|interpreter|all]  -  translator validation (Serval style).

The ECAL source texts of the repository's OWN tests (scraped from the *_test.go files of /repo on every run) are pushed, with
concrete inputs, through (a) the real build (go test -overlay) and (b) gosym's SSA executor; for every text both sides compute a digest
(token list, tree, pretty-printed text, error text; for the interpreter: value, error, log, final scope) and the digests must be equal.
A difference is a defect of the engine / its intrinsics, not a property verdict.  Development aid + part of setup validation; exits 1 on
any difference."""
import json, os, subprocess, sys, tempfile, shutil

V = os.path.dirname(os.path.dirname(os.path.abspath(__file__)))
REPO = os.environ.get("VERIF_REPO", "/repo")
ENV = dict(os.environ, GOFLAGS="-mod=mod", GOPROXY="off", GOSUMDB="off", GOTOOLCHAIN="local")
MOD = "github.com/krotik/ecal"

def gostr(s):
    return json.dumps(s).replace("\\u003c", "<").replace("\\u003e", ">").replace("\\u0026", "&")

PARSER_H = '''package parser

import (
	"fmt"

	zz "github.com/krotik/ecal/zzverif"
)

var zzSelfInputs = []string{
%s
}

var zzSelfLbl = "0123456789"

func zzSelfLabel(i int) string {
	return "p" + zzSelfLbl[i/100%%10:i/100%%10+1] + zzSelfLbl[i/10%%10:i/10%%10+1] + zzSelfLbl[i%%10:i%%10+1]
}

// VerifSelftestParser: tokens, tree, pretty-printed text and error text of every source text of the parser's own tests.
func VerifSelftestParser() {
	lo, hi := zz.Param("LO", 0), zz.Param("HI", len(zzSelfInputs))
	for i := lo; i < hi && i < len(zzSelfInputs); i++ {
		src := zzSelfInputs[i]
		d := ""
		for _, t := range LexToList("t", src) {
			d += fmt.Sprint(t.ID, ":", t.Val, "@", t.Lline, ",", t.Lpos, "|")
		}
		ast, err := Parse("t", src)
		if err != nil {
			d += " ERR:" + err.Error()
		} else {
			d += " AST:" + ast.String()
			pp, perr := PrettyPrint(ast)
			d += " PP:" + pp + fmt.Sprint(perr)
		}
		zz.Digest(zzSelfLabel(i), d)
	}
	zz.Reach("done")
}
'''

INTERP_H = '''package interpreter

import (
	"fmt"

	"github.com/krotik/ecal/scope"
	"github.com/krotik/ecal/util"
	zz "github.com/krotik/ecal/zzverif"
)

var zzSelfInputs = []string{
%s
}

var zzSelfLbl = "0123456789"

func zzSelfLabel(i int) string {
	return "i" + zzSelfLbl[i/100%%10:i/100%%10+1] + zzSelfLbl[i/10%%10:i/10%%10+1] + zzSelfLbl[i%%10:i%%10+1]
}

// VerifSelftestInterpreter: value, error, log output and final scope of every source text of the interpreter's own tests
// (those without time, randomness, sinks, imports or threads).
func VerifSelftestInterpreter() {
	lo, hi := zz.Param("LO", 0), zz.Param("HI", len(zzSelfInputs))
	for i := lo; i < hi && i < len(zzSelfInputs); i++ {
		logger := util.NewMemoryLogger(100)
		erp := NewECALRuntimeProvider("t", &util.MemoryImportLocator{Files: map[string]string{}}, logger)
		vs := scope.NewScope(scope.GlobalScope)
		res, err := zzRun(erp, zzSelfInputs[i], vs)
		d := fmt.Sprint("RES:", res)
		if err != nil {
			d = "ERR:" + err.Error()
		}
		d += " LOG:" + logger.String() + " VS:" + vs.String()
		zz.Digest(zzSelfLabel(i), d)
	}
	zz.Reach("done")
}
'''

SKIP = ["sleep", "now(", "rand(", "Trigger", "sink", "addEvent", "import ", "timestamp", "dumpenv", "mutex", "math.", "fmt.", "doc(", "pulse", "@"]

def run(which):
    tmp = tempfile.mkdtemp(prefix="selftest")
    try:
        pkgdir = {"parser": "parser", "interpreter": "interpreter"}[which]
        inputs = json.loads(subprocess.check_output([os.path.join(V, "bin", "scrape"), os.path.join(REPO, pkgdir)]))
        if which == "interpreter":
            inputs = [s for s in inputs if not any(k in s for k in SKIP)]
        hsrc = (PARSER_H if which == "parser" else INTERP_H) % "\n".join("\t" + gostr(s) + "," for s in inputs)
        hfile = os.path.join(tmp, "selftest.go")
        open(hfile, "w").write(hsrc)
        fn = "VerifSelftestParser" if which == "parser" else "VerifSelftestInterpreter"
        extra = {} if which == "parser" else {REPO + "/interpreter/zz_verif_common.go": os.path.join(V, "harness", "interpreter", "common.go")}
        # ---- native
        tfile = os.path.join(tmp, "selftest_test.go")
        open(tfile, "w").write("package %s\n\nimport \"testing\"\n\nfunc TestVerifSelftest(t *testing.T) { %s() }\n" % (pkgdir, fn))
        ov = {"Replace": {REPO + "/zzverif/zzverif.go": os.path.join(V, "harness", "zzverif_native", "zzverif.go"),
                          REPO + "/" + pkgdir + "/zz_verif_selftest.go": hfile,
                          REPO + "/" + pkgdir + "/zz_selftest_test.go": tfile}}
        ov["Replace"].update(extra)
        ovf = os.path.join(tmp, "ov.json")
        json.dump(ov, open(ovf, "w"))
        dout = os.path.join(tmp, "native.jsonl")
        r = subprocess.run(["go", "test", "-vet=off", "-count=1", "-overlay", ovf, "-run", "^TestVerifSelftest$", "./" + pkgdir + "/"],
                           cwd=REPO, env=dict(ENV, VERIF_DIGEST_OUT=dout), capture_output=True, text=True, timeout=900)
        if not os.path.exists(dout):
            print(which, ": native run failed:\n", (r.stdout + r.stderr)[-1500:])
            return 1
        native = {}
        for l in open(dout):
            o = json.loads(l)
            native[o["label"]] = o["text"]
        # ---- symbolic executor, concrete inputs, in slices (one path each)
        sym = {}
        step = 25
        for lo in range(0, len(inputs), step):
            overlay = {REPO + "/zzverif/zzverif.go": os.path.join(V, "harness", "zzverif", "zzverif.go"),
                       REPO + "/" + pkgdir + "/zz_verif_selftest.go": hfile}
            overlay.update(extra)
            job = {"repo": REPO, "pkg": MOD + "/" + pkgdir, "fn": fn, "overlay": overlay, "known": [], "replay": False,
                   "replay_dir": tmp, "native_zz": os.path.join(V, "harness", "zzverif_native", "zzverif.go"), "workers": 2,
                   "params": {"LO": lo, "HI": lo + step}, "unwind": 100000, "max_steps": 400000000, "wall_s": 1500}
            jp, rp = os.path.join(tmp, "job.json"), os.path.join(tmp, "res.json")
            json.dump(job, open(jp, "w"))
            pr = subprocess.run([os.path.join(V, "bin", "gosym"), "-job", jp, "-out", rp], env=ENV, capture_output=True, text=True, timeout=2400)
            if pr.returncode != 0 or not os.path.exists(rp):
                print(which, ": gosym failed on slice", lo, (pr.stderr or "")[-800:])
                continue
            res = json.load(open(rp))
            sym.update(res.get("digests") or {})
            for g in res.get("groups") or []:
                print("  executor finding in slice %d: %s %s @ %s" % (lo, g["kind"], g["msg"][:160], g.get("where", "")[:120]))
            os.remove(rp)
        bad = 0
        for lab in sorted(native):
            if lab not in sym:
                bad += 1
                print("  %s: no digest from the executor (path ended early?)  input=%r" % (lab, inputs[int(lab[1:])][:80]))
            elif sym[lab] != native[lab]:
                bad += 1
                a, b = native[lab], sym[lab]
                k = next((i for i in range(min(len(a), len(b))) if a[i] != b[i]), min(len(a), len(b)))
                print("  %s DIFFERS at byte %d  input=%r\n     native: %r\n     gosym : %r" % (lab, k, inputs[int(lab[1:])][:80], a[max(0, k - 40):k + 60], b[max(0, k - 40):k + 60]))
        print("%s: %d source texts from the repository's tests, %d equal digests, %d differences" % (which, len(native), len(native) - bad, bad))
        return 1 if bad else 0
    finally:
        shutil.rmtree(tmp, ignore_errors=True)

if __name__ == "__main__":
    what = sys.argv[1] if len(sys.argv) > 1 else "all"
    rc = 0
    for w in (["parser", "interpreter"] if what == "all" else [what]):
        rc |= run(w)
    sys.exit(rc)
